#!/bin/sh
# Builds the framework from files on disk only (offline): the simify rewriter
# and one warm build of the instrumented tree + harness.
set -e
cd "$(dirname "$0")"
export GOFLAGS=-mod=mod GOPROXY=off GOSUMDB=off GOTOOLCHAIN=local
mkdir -p bin evidence replays
(cd tools/simify && /opt/veriftools/go1.26.8/bin/go build -o ../../bin/simify .)
./check --build >/dev/null
echo setup ok
