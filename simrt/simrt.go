// Package simrt is the deterministic simulator runtime that instrumented
// thunder code (see /verif/tools/simify) and the harnesses run on.
//
// One baton: exactly one managed goroutine ("task") runs at a time; a task
// runs until it reaches a scheduling point, where it hands the baton back to
// the scheduler goroutine. Who runs next is a draw from the decision stream,
// never the Go runtime's choice. Quiescence detection and the clock come from
// testing/synctest: each run is one bubble, the scheduler calls synctest.Wait
// after every hand-off, and when nothing is runnable it blocks, which lets the
// bubble's fake clock jump to the next timer.
package simrt

import (
	"context"
	"database/sql"
	"fmt"
	"os"
	"reflect"
	"runtime"
	"runtime/debug"
	"strings"
	"sync/atomic"
	"testing"
	"testing/synctest"
	"time"
	"unsafe"
)

type state = int32

const (
	stReady    state = iota
	stRunning        // holds the baton
	stExternal       // blocked in a real channel operation / timer wait
	stWaiting        // parked on a simulated primitive (mutex, waitgroup, once)
	stDone
)

// Task is one managed goroutine.
type Task struct {
	ID        int
	Name      string
	wake      chan struct{}
	kill      chan struct{}
	state     atomic.Int32
	daemon    bool   // AfterFunc task whose timer has not fired (or harness daemon)
	on        string // what it is blocked on (diagnostics)
	prio      int64  // PCT priority
	nameH     uint32
	picks     uint32
	starve    int // consecutive scheduling steps this task was ready but not picked
	parkUntil int // not offered to the scheduler before this step (long preemption)
	// the map access this task is about to perform (it sits at the scheduling
	// point right in front of it); 0 = none
	mapP    uintptr
	mapW    bool
	mapSite string
	mapVar  bool // the pending access is a VarOp (update of a variable), not a map access
	pausing bool // inside an injected pause (no pause within a pause)
}

func (t *Task) st() state      { return t.state.Load() }
func (t *Task) set(s state)    { t.state.Store(s) }
func (t *Task) String() string { return fmt.Sprintf("%d:%s", t.ID, t.Name) }

// Options configure one simulated run.
type Options struct {
	MaxSteps int           // scheduling steps before the run is cut (default 200000)
	Idle     time.Duration // simulated time the scheduler waits with nothing runnable before declaring deadlock (default 2h)
	// StallPermille > 0 enables the task-stall fault: before a scheduling step
	// the scheduler may leave every ready task unscheduled while simulated time
	// advances by up to StallMax.
	StallPermille int
	StallMax      time.Duration
	// ParkPermille > 0 enables long preemptions: at a scheduling point the
	// running task is, with this probability, left out of the ready set for
	// the next 8 / 32 / 128 / 400 / 4000 scheduling steps (or until nothing
	// else is runnable). A uniform or priority-based choice among ready tasks almost
	// never keeps one task off the CPU for the hundreds of steps another
	// component needs to get through a narrow window.
	ParkPermille int
	// PausePermille > 0 enables slow tasks: at a scheduling point the running
	// task alone pauses for 1 ms, 20 ms or 300 ms of simulated time (a
	// descheduled or briefly frozen goroutine) while everything else carries on
	// and timers fire.
	PausePermille int
	// MapPausePermille > 0: a task about to write a shared map pauses (1 / 20 / 300 ms;
	// 1 / 5 / 20 ms before a read) with this probability (a tenth of it before a read),
	// so that accesses driven by different timers can meet.
	MapPausePermille int
	// SpawnPausePermille > 0: right after a go statement the spawning task is,
	// with this probability, kept off the CPU for 128 / 4000 steps or pauses
	// for 1 / 20 ms - the new goroutine runs far ahead of its parent, as it
	// does when it lands on an idle processor.
	SpawnPausePermille int
	Log                bool // keep the event log
	MaxLog             int
	RotateMaps         bool // permute canonical map iteration order from the stream
	// Fairness bounds starvation: a task that was ready but not picked for this
	// many consecutive steps is scheduled next without consulting the stream
	// (default 64). Liveness oracles assume a fair scheduler; priority-based
	// strategies would otherwise starve a task forever.
	Fairness int
}

// Sim is one simulated run.
type Sim struct {
	St   *Stream
	opts Options

	tasks  []*Task
	cur    *Task
	sched  chan struct{}
	wakeup chan struct{}
	killed bool
	main   *Task

	Steps     int
	Branching int // task decisions with >= 2 ready tasks
	Stalls    int
	stalled   time.Duration // simulated time spent in stalls so far
	Forced    int           // picks forced by the fairness bound
	Parks     int           // long preemptions injected (ParkPermille)
	Pauses    int           // single-task pauses injected (PausePermille)
	MapOps    int           // instrumented accesses to shared maps
	// Races: unordered conflicting accesses to one map (see MapOp), by map expression
	Races      map[string]string
	maps       map[uintptr]*mapState
	sitePauses map[string]int // pauses injected so far, by map-access / spawn site
	Hash       uint64         // hash of the schedule (task name + ordinal at every branching decision)
	seq        uint64
	start      time.Time
	End        time.Duration // simulated time at the end of main

	Panics    []string // panics that escaped a task's top frame
	Exhausted bool     // step cap reached
	Deadlock  bool     // main never finished and nothing can wake
	Stuck     []string // tasks alive when a deadlock / exhaustion was declared
	LazyKeys  int      // pointer map keys first seen while sorting (nondeterminism risk)
	LazyWhere map[string]int
	Events    []string
	Strategy  int
	SpawnCnt  map[string]int
	// TimerFired counts AfterFunc callbacks that actually fired, by site.
	TimerFired map[string]int

	pctChange []int
	pctLow    int64
	gen       uint32
}

// traceSched (SIMRT_TRACE=1) adds every scheduling decision to the event log
// of a logged run; a debugging aid for replays.
var traceSched = os.Getenv("SIMRT_TRACE") != ""

// mapTrace (SIMRT_MAPTRACE=<substring of a site>) logs the watched accesses of
// matching sites; a debugging aid.
var mapTrace = os.Getenv("SIMRT_MAPTRACE")

// S is the active simulation; nil means pass-through.
var S *Sim
var genCounter uint32

// Active reports whether a simulation is running and not being torn down.
func Active() bool { s := S; return s != nil && !s.killed }

// Gen identifies the current run (0 when none); shims use it to reset state
// that survived a previous run.
func Gen() uint32 {
	if s := S; s != nil {
		return s.gen
	}
	return 0
}

func fnv32(s string) uint32 {
	h := uint32(2166136261)
	for i := 0; i < len(s); i++ {
		h ^= uint32(s[i])
		h *= 16777619
	}
	return h
}

func (s *Sim) newTask(name string) *Task {
	t := &Task{ID: len(s.tasks), Name: name, wake: make(chan struct{}), kill: make(chan struct{}), nameH: fnv32(name)}
	if !s.St.replay {
		t.prio = int64(s.St.r.next()>>2) + 1
	}
	s.tasks = append(s.tasks, t)
	if s.SpawnCnt != nil {
		s.SpawnCnt[name]++
	}
	return t
}

// Go spawns a managed task. name identifies the spawn site.
func Go(name string, f func()) {
	s := S
	if s == nil {
		go f()
		return
	}
	if s.killed {
		return
	}
	t := s.newTask(name)
	if s.opts.Log {
		Logf("spawn task %d %s", t.ID, name)
	}
	go s.taskMain(t, f)
	if pm := s.opts.SpawnPausePermille; pm > 0 && s.cur != nil && !s.cur.pausing && s.cur.st() == stRunning {
		// the new goroutine gets ahead of the one that started it (per spawn
		// site the probability halves with every fourth pause already injected)
		pm >>= uint(min(s.sitePauses["go "+name]/4, 16))
		v := s.St.Biased(5, 1000-pm, "spawn-pause")
		if v > 0 {
			s.notePause("go " + name)
		}
		switch v {
		case 1, 2:
			s.cur.parkUntil = s.Steps + []int{0, 128, 4000}[v]
			s.Parks++
			Yield()
		case 3, 4:
			s.Pauses++
			me := s.cur
			me.pausing = true
			Sleep([]time.Duration{0, 0, 0, time.Millisecond, 20 * time.Millisecond}[v])
			me.pausing = false
		}
	}
}

func (s *Sim) taskMain(t *Task, f func()) {
	defer s.taskEnd(t)
	s.park(t)
	f()
}

func (s *Sim) taskEnd(t *Task) {
	if p := recover(); p != nil {
		if !s.killed {
			s.Panics = append(s.Panics, fmt.Sprintf("task %s: %v\n%s", t, p, trimStack(debug.Stack())))
		}
	}
	wasCur := s.cur == t && t.st() == stRunning
	if traceSched && s.opts.Log && !s.killed && len(s.Events) < s.opts.MaxLog {
		s.Events = append(s.Events, fmt.Sprintf("   task %d %s ends", t.ID, t.Name))
	}
	t.set(stDone)
	if t == s.main {
		s.End = time.Since(s.start)
	}
	if wasCur && !s.killed {
		s.sched <- struct{}{}
	}
}

func trimStack(b []byte) string {
	lines := strings.Split(string(b), "\n")
	if len(lines) > 40 {
		lines = lines[:40]
	}
	return strings.Join(lines, "\n")
}

// park waits until scheduled or killed.
func (s *Sim) park(t *Task) {
	select {
	case <-t.wake:
	case <-t.kill:
		t.set(stDone)
		runtime.Goexit()
	}
}

func (s *Sim) dying() {
	// Called by a task that reached a scheduling point while the run is being
	// torn down: it must not continue.
	runtime.Goexit()
}

// Yield is a scheduling point: the current task stays runnable.
func Yield() { yield(true) }

// YieldOnly is a scheduling point at which no pause or long preemption is
// injected: the points the simulator adds beyond the program's own
// synchronisation operations (after an Unlock, in front of a watched map
// access) use it, so that they do not multiply the injected delays.
func YieldOnly() { yield(false) }

func yield(faults bool) {
	s := S
	if s == nil {
		return
	}
	if s.killed {
		s.dying()
	}
	if faults && s.opts.PausePermille > 0 && !s.cur.pausing {
		if v := s.St.Biased(4, 1000-s.opts.PausePermille, "pause"); v > 0 {
			s.Pauses++
			me := s.cur
			me.pausing = true
			Sleep([]time.Duration{0, time.Millisecond, 20 * time.Millisecond, 300 * time.Millisecond}[v])
			me.pausing = false
			return
		}
	}
	t := s.cur
	if faults && s.opts.ParkPermille > 0 {
		if v := s.St.Biased(6, 1000-s.opts.ParkPermille, "park"); v > 0 {
			t.parkUntil = s.Steps + []int{0, 8, 32, 128, 400, 4000}[v]
			s.Parks++
		}
	}
	t.set(stReady)
	s.sched <- struct{}{}
	s.park(t)
}

// MapOp is a scheduling point in front of a statement that reads or writes
// (write) a map that more than one task can reach - simify inserts it where
// nothing but the access itself follows (no call, no channel operation). While
// a task sits here its access is pending: it is runnable and the access is the
// next thing it does. If another task arrives at an access to the same map
// while one is pending, and one of the two is a write, then both accesses are
// enabled in the same state and nothing orders them - which is exactly Go's
// "concurrent map read and map write" / "concurrent map writes" condition (the
// runtime throws a fatal error when it notices one). No happens-before
// bookkeeping is involved, so synchronisation through code the simulator does
// not see cannot produce a false report: had it ordered the two accesses, the
// second task could not have reached its access while the first one's is
// still pending.
func MapOp(m interface{}, write bool, site string) {
	s := S
	if s == nil || s.killed {
		return
	}
	v := reflect.ValueOf(m)
	if v.Kind() != reflect.Map || v.IsNil() {
		return
	}
	s.access(v.Pointer(), v.UnsafePointer(), write, site, false)
}

// VarOp is MapOp for a read-modify-write of a variable more than one task can
// reach: p is the address of x in `x = append(x, ...)`, `x++`, `x += y` (and
// the other assignment operators). Two tasks that are both about to update the
// same variable this way are in a write-write data race, and whatever the
// memory model makes of it, one of the two updates can be lost. Plain reads of
// the variable are not watched, so a racing reader goes unnoticed.
func VarOp(p interface{}, site string) {
	s := S
	if s == nil || s.killed {
		return
	}
	v := reflect.ValueOf(p)
	if v.Kind() != reflect.Ptr || v.IsNil() {
		return
	}
	s.access(v.Pointer(), v.UnsafePointer(), true, site, true)
}

func (s *Sim) access(p uintptr, pin unsafe.Pointer, write bool, site string, isVar bool) {
	t := s.cur
	// Only a map that a second task has touched, and that was written since,
	// can be part of a race from here on; everything else (a map still private
	// to its creator, a map that is only read once shared - a schema) costs no
	// scheduling point. A read that precedes the first write to a shared map
	// is thereby not watched. The entry pins the map so that its address is not
	// reused within the run (replays must not depend on the collector).
	ms := s.maps[p]
	first := ms == nil
	if first {
		if s.maps == nil {
			s.maps = map[uintptr]*mapState{}
		}
		ms = &mapState{pin: pin, owner: t}
		s.maps[p] = ms
	}
	if ms.owner != t {
		ms.shared = true
	}
	if isVar {
		// in-place updates are rare: the first one of a variable is watched too
		// (two tasks growing a fresh slice at the same time), then every one
		// once a second task has joined
		if !ms.shared && !first {
			return
		}
	} else {
		if !ms.shared {
			return
		}
		if !ms.hot {
			if !write {
				return
			}
			// the first write to a shared map: from here on every access is
			// watched, this one included (a reader that got here first was not)
			ms.hot = true
		}
	}
	s.MapOps++
	if mapTrace != "" && strings.Contains(site, mapTrace) {
		Logf("MAPOP %s write=%v", site, write)
	}
	for _, o := range s.tasks {
		if o != t && o.mapP == p && o.mapVar == isVar && (write || o.mapW) && o.st() != stDone {
			s.noteRace(t, site, write, o, isVar)
		}
	}
	t.mapP, t.mapW, t.mapSite, t.mapVar = p, write, site, isVar
	if pm := s.opts.MapPausePermille; pm > 0 && !t.pausing {
		if !write {
			pm /= 10
		}
		// the probability halves with every pause already injected at this
		// site in this run: a site that is passed thousands of times (every
		// field stitched into a response) must not stretch the run by minutes
		pm >>= uint(min(s.sitePauses[site], 16))
		if v := s.St.Biased(4, 1000-pm, "map-pause"); v > 0 {
			s.notePause(site)
			s.Pauses++
			t.pausing = true
			if write {
				Sleep([]time.Duration{0, time.Millisecond, 20 * time.Millisecond, 300 * time.Millisecond}[v])
			} else {
				Sleep([]time.Duration{0, time.Millisecond, 5 * time.Millisecond, 20 * time.Millisecond}[v])
			}
			t.pausing = false
			t.mapP = 0
			return
		}
	}
	YieldOnly()
	t.mapP = 0
}

type mapState struct {
	pin    unsafe.Pointer
	owner  *Task
	shared bool // a task other than the first one has accessed it
	hot    bool // written since it became shared
}

func (s *Sim) notePause(site string) {
	if s.sitePauses == nil {
		s.sitePauses = map[string]int{}
	}
	s.sitePauses[site]++
}

func accessKind(w bool) string {
	if w {
		return "write"
	}
	return "read"
}

func (s *Sim) noteRace(t *Task, site string, write bool, o *Task, isVar bool) {
	// site = "<package>.<function>: <map expression>"
	expr := func(site string) string {
		if i := strings.Index(site, ": "); i >= 0 {
			return site[i+2:]
		}
		return site
	}
	a, b := expr(site), expr(o.mapSite)
	if b < a {
		a, b = b, a
	}
	key := a
	if b != a {
		key = a + "~" + b
	}
	if isVar {
		key = "update:" + key
	}
	if s.Races == nil {
		s.Races = map[string]string{}
	}
	if _, dup := s.Races[key]; dup {
		return
	}
	if isVar {
		s.Races[key] = fmt.Sprintf("task %s is about to update a variable in place in %s while task %s is about to update the same variable in %s; nothing orders the two read-modify-write sequences, so one update can be lost (a write-write data race)",
			t.Name, site, o.Name, o.mapSite)
		Logf("RACE %s", s.Races[key])
		return
	}
	d := fmt.Sprintf("task %s is about to %s a map in %s while task %s is about to %s the same map in %s; nothing orders the two accesses (Go: fatal error: concurrent map %s)",
		t.Name, accessKind(write), site, o.Name, accessKind(o.mapW), o.mapSite,
		map[bool]string{true: "writes", false: "read and map write"}[write && o.mapW])
	s.Races[key] = d
	Logf("RACE %s", d)
}

// Block releases the baton before a real blocking operation. The returned
// task must be passed to Unblock once the operation completed.
func Block(on string) *Task {
	s := S
	if s == nil {
		return nil
	}
	if s.killed {
		s.dying()
	}
	t := s.cur
	t.on = on
	t.set(stExternal)
	s.sched <- struct{}{}
	return t
}

// Unblock re-enters the scheduler after a real blocking operation completed.
func Unblock(t *Task) {
	s := S
	if t == nil || s == nil {
		return
	}
	if s.killed {
		t.set(stDone)
		runtime.Goexit()
	}
	t.on = ""
	t.set(stReady)
	select {
	case s.wakeup <- struct{}{}:
	default:
	}
	s.park(t)
}

// KillChOf returns the channel closed when t is torn down (nil for nil).
func KillChOf(t *Task) <-chan struct{} {
	if t == nil {
		return nil
	}
	return t.kill
}

// Exit terminates the calling task (used by instrumented code on kill).
func Exit() { runtime.Goexit() }

// WaitOn parks the current task until another task calls MakeReady on it.
func WaitOn(on string) {
	s := S
	if s.killed {
		s.dying()
	}
	t := s.cur
	t.on = on
	if traceSched && s.opts.Log && len(s.Events) < s.opts.MaxLog {
		s.Events = append(s.Events, fmt.Sprintf("   task %d %s waits on %s", t.ID, t.Name, on))
	}
	t.set(stWaiting)
	s.sched <- struct{}{}
	s.park(t)
	t.on = ""
}

// Cur returns the running task (nil outside a simulation).
func Cur() *Task {
	if s := S; s != nil {
		return s.cur
	}
	return nil
}

// CurName returns the spawn-site name of the running task.
func CurName() string {
	if t := Cur(); t != nil {
		return t.Name
	}
	return ""
}

// CurID returns the id of the running task or -1.
func CurID() int {
	if t := Cur(); t != nil {
		return t.ID
	}
	return -1
}

// MakeReady makes a task parked with WaitOn runnable again.
func MakeReady(t *Task) {
	if t.st() == stWaiting {
		t.set(stReady)
	}
}

// MakeReadyID is MakeReady by task id (shims store ids, not pointers, so that
// reflective walks over user structs never reach simulator types).
func MakeReadyID(id int) {
	if s := S; s != nil && id >= 0 && id < len(s.tasks) {
		MakeReady(s.tasks[id])
	}
}

// SetDaemon marks the current task as a daemon: it is not reported as a
// leaked or stuck task (harness environment tasks).
func SetDaemon() {
	if t := Cur(); t != nil {
		t.daemon = true
	}
}

// Sleep is time.Sleep as a managed blocking operation.
func Sleep(d time.Duration) {
	if S == nil {
		time.Sleep(d)
		return
	}
	t := Block("sleep")
	tm := time.NewTimer(d)
	select {
	case <-tm.C:
	case <-t.kill:
		tm.Stop()
		t.set(stDone)
		runtime.Goexit()
	}
	Unblock(t)
}

// AfterFunc is time.AfterFunc whose callback runs as a managed task. The task
// id is assigned when the timer is created.
func AfterFunc(name string, d time.Duration, f func()) *time.Timer {
	s := S
	if s == nil || s.killed {
		return time.AfterFunc(d, f)
	}
	t := s.newTask(name)
	t.set(stExternal)
	t.on = "timer"
	t.daemon = true
	return time.AfterFunc(d, func() {
		if s.killed {
			t.set(stDone)
			return
		}
		t.daemon = false
		defer s.taskEnd(t)
		Unblock(t)
		s.TimerFired[name]++
		f()
	})
}

// Choose draws from the decision stream (0 outside a simulation).
func Choose(n int, kind string) int {
	s := S
	if s == nil || n <= 1 {
		return 0
	}
	return s.St.Choose(n, kind)
}

// Biased draws 0 with probability p0 permille, else uniformly from [1,n).
func Biased(n, p0 int, kind string) int {
	s := S
	if s == nil || n <= 1 {
		return 0
	}
	return s.St.Biased(n, p0, kind)
}

// Seq returns the next global event sequence number.
func Seq() uint64 {
	s := S
	if s == nil {
		return 0
	}
	s.seq++
	return s.seq
}

// Now returns the simulated time since the start of the run.
func Now() time.Duration {
	s := S
	if s == nil {
		return 0
	}
	return time.Since(s.start)
}

// Logf appends to the event log (kept only when Options.Log is set).
func Logf(format string, args ...interface{}) {
	s := S
	if s == nil || !s.opts.Log || len(s.Events) >= s.opts.MaxLog {
		return
	}
	s.seq++
	s.Events = append(s.Events, fmt.Sprintf("#%d t=%v [%d %s] %s", s.seq, time.Since(s.start), CurID(), CurName(), fmt.Sprintf(format, args...)))
}

// TaskInfo describes a live task.
type TaskInfo struct {
	ID     int
	Name   string
	State  string
	On     string
	Daemon bool
}

// Alive lists tasks that have not finished (excluding the caller).
func Alive() []TaskInfo {
	s := S
	if s == nil {
		return nil
	}
	var out []TaskInfo
	for _, t := range s.tasks {
		if t == s.cur {
			continue
		}
		st := t.st()
		if st == stDone {
			continue
		}
		if t.daemon && st == stExternal && t.on == "timer" {
			continue // unfired AfterFunc timer
		}
		name := [...]string{"ready", "running", "blocked", "waiting", "done"}[st]
		out = append(out, TaskInfo{t.ID, t.Name, name, t.on, t.daemon})
	}
	return out
}

// TimerFirings returns how many AfterFunc callbacks created at sites whose
// name contains substr have fired so far.
func TimerFirings(substr string) int {
	s := S
	if s == nil {
		return 0
	}
	n := 0
	for k, v := range s.TimerFired {
		if strings.Contains(k, substr) {
			n += v
		}
	}
	return n
}

// PendingTimers lists AfterFunc timers that were created and have neither
// fired nor been observed as stopped (the runtime cannot tell a stopped timer
// from a pending one; callers let simulated time pass and check for firings).
func PendingTimers() []string {
	s := S
	if s == nil {
		return nil
	}
	var out []string
	for _, t := range s.tasks {
		if t.daemon && t.st() == stExternal && t.on == "timer" {
			out = append(out, t.Name)
		}
	}
	return out
}

// ---------------------------------------------------------------------------
// channels and select

// Case describes one select case.
type Case struct {
	Dir  reflect.SelectDir
	Ch   interface{}
	Send interface{}
}

// Recv builds a receive case.
func Recv(ch interface{}) Case { return Case{Dir: reflect.SelectRecv, Ch: ch} }

// Send builds a send case.
func Send(ch, v interface{}) Case { return Case{Dir: reflect.SelectSend, Ch: ch, Send: v} }

func buildCases(cases []Case) []reflect.SelectCase {
	rc := make([]reflect.SelectCase, 0, len(cases)+2)
	for _, c := range cases {
		chv := reflect.ValueOf(c.Ch)
		sc := reflect.SelectCase{Dir: c.Dir}
		if chv.IsValid() && !chv.IsNil() {
			sc.Chan = chv
			if c.Dir == reflect.SelectSend {
				elem := chv.Type().Elem()
				v := reflect.New(elem).Elem()
				if c.Send != nil {
					v.Set(reflect.ValueOf(c.Send))
				}
				sc.Send = v
			}
		}
		rc = append(rc, sc)
	}
	return rc
}

func convRecv(rc []reflect.SelectCase, i int, v reflect.Value, ok bool) (int, interface{}, bool) {
	if rc[i].Dir == reflect.SelectRecv {
		if v.IsValid() {
			return i, v.Interface(), ok
		}
		return i, nil, ok
	}
	return i, nil, false
}

// Select implements a select statement: cases that are ready when the task
// reaches the statement are polled in an order drawn from the decision stream
// (Go would pick with an unseedable runtime RNG); only if none is ready does
// the task block in one real select, with an extra "torn down" case. It
// returns the chosen index (-1 = default), the received value and ok.
func Select(hasDefault bool, cases ...Case) (int, interface{}, bool) {
	rc := buildCases(cases)
	s := S
	if s == nil {
		if hasDefault {
			rc = append(rc, reflect.SelectCase{Dir: reflect.SelectDefault})
		}
		i, v, ok := reflect.Select(rc)
		if hasDefault && i == len(rc)-1 {
			return -1, nil, false
		}
		return convRecv(rc, i, v, ok)
	}
	Yield()
	n := len(rc)
	start := 0
	if n > 1 {
		start = s.St.Biased(n, 500, "select")
	}
	for k := 0; k < n; k++ {
		i := (start + k) % n
		c := rc[i]
		if !c.Chan.IsValid() {
			continue
		}
		if c.Dir == reflect.SelectRecv {
			if v, ok := c.Chan.TryRecv(); ok || v.IsValid() {
				return convRecv(rc, i, v, ok)
			}
		} else if c.Chan.TrySend(c.Send) {
			return i, nil, false
		}
	}
	if hasDefault {
		return -1, nil, false
	}
	t := Block("select")
	rc = append(rc, reflect.SelectCase{Dir: reflect.SelectRecv, Chan: reflect.ValueOf(t.kill)})
	i, v, ok := reflect.Select(rc)
	if i == len(rc)-1 {
		t.set(stDone)
		runtime.Goexit()
	}
	Unblock(t)
	return convRecv(rc, i, v, ok)
}

// ChanRecv is a blocking receive statement.
func ChanRecv(ch interface{}) (interface{}, bool) {
	_, v, ok := Select(false, Recv(ch))
	return v, ok
}

// ChanSend is a blocking send statement.
func ChanSend(ch, v interface{}) {
	Select(false, Send(ch, v))
}

// IOPoint is a scheduling point before a call into an external system that
// runs with the baton held (database/sql over the in-memory driver).
func IOPoint(kind string) { Yield() }

// ---------------------------------------------------------------------------
// running a simulation

// Run executes main under the simulator inside a synctest bubble and returns
// once the run has been torn down completely.
func Run(t *testing.T, st *Stream, opts Options, main func()) *Sim {
	if opts.MaxSteps == 0 {
		opts.MaxSteps = 200000
	}
	if opts.Idle == 0 {
		opts.Idle = 2 * time.Hour
	}
	if opts.MaxLog == 0 {
		opts.MaxLog = 4000
	}
	if opts.Fairness == 0 {
		opts.Fairness = 64
	}
	genCounter++
	s := &Sim{St: st, opts: opts, gen: genCounter, Hash: 14695981039346656037}
	s.SpawnCnt = map[string]int{}
	s.TimerFired = map[string]int{}
	resetKeys()
	func() {
		defer func() {
			if p := recover(); p != nil {
				s.Panics = append(s.Panics, fmt.Sprintf("bubble: %v", p))
			}
			S = nil
		}()
		synctest.Test(t, func(t *testing.T) {
			s.sched = make(chan struct{})
			s.wakeup = make(chan struct{}, 1)
			s.start = time.Now()
			S = s
			s.Strategy = st.Choose(6, "strategy")
			if s.Strategy >= 3 && !st.replay {
				d := s.Strategy - 2
				for i := 0; i < d; i++ {
					s.pctChange = append(s.pctChange, st.r.intn(400))
				}
			}
			Go("main", main)
			s.main = s.tasks[0]
			s.loop()
			s.teardown()
		})
	}()
	return s
}

func (s *Sim) teardown() {
	s.killed = true
	for _, t := range s.tasks {
		if t.st() != stDone {
			close(t.kill)
			synctest.Wait()
		}
	}
	synctest.Wait()
}

func (s *Sim) collect() (ready []*Task, alive, external int) {
	var parked *Task
	defer func() {
		// nothing else runnable: the parked task with the earliest deadline runs
		if len(ready) == 0 && parked != nil {
			parked.parkUntil = 0
			ready = append(ready, parked)
		}
	}()
	for _, t := range s.tasks {
		switch t.st() {
		case stReady:
			alive++
			if t.parkUntil > s.Steps {
				if parked == nil || t.parkUntil < parked.parkUntil {
					parked = t
				}
				continue
			}
			ready = append(ready, t)
		case stExternal:
			if !t.daemon {
				alive++
			}
			external++
		case stWaiting:
			alive++
		}
	}
	return
}

func (s *Sim) loop() {
	for {
		synctest.Wait()
		if s.main.st() == stDone {
			return
		}
		ready, _, external := s.collect()
		if s.Steps >= s.opts.MaxSteps {
			s.Exhausted = true
			s.noteStuck()
			return
		}
		if len(ready) == 0 {
			if external == 0 {
				s.Deadlock = true
				s.noteStuck()
				return
			}
			tm := time.NewTimer(s.opts.Idle)
			select {
			case <-s.wakeup:
				tm.Stop()
				continue
			case <-tm.C:
				s.Deadlock = true
				s.noteStuck()
				return
			}
		}
		// (at most 12 x StallMax of stalls per run: the number of scheduling
		// steps of a run is the simulator's business - it grew when scheduling
		// points were added - and must not decide how much simulated time a
		// request takes)
		if s.opts.StallPermille > 0 && s.stalled < 12*s.opts.StallMax {
			if v := s.St.Biased(8, 1000-s.opts.StallPermille, "stall"); v > 0 {
				// leave every ready task unscheduled while time advances
				d := s.opts.StallMax * time.Duration(v) / 7
				if d > 0 {
					s.stalled += d
					s.Stalls++
					time.Sleep(d)
					select {
					case <-s.wakeup:
					default:
					}
					continue
				}
			}
		}
		// canonical order: the task that ran last (if still ready) first, then
		// by id; choice 0 = "no preemption"
		if s.cur != nil {
			for i, t := range ready {
				if t == s.cur {
					copy(ready[1:i+1], ready[:i])
					ready[0] = t
					break
				}
			}
		}
		idx := 0
		if len(ready) > 1 {
			starved := -1
			for i, t := range ready {
				if t.starve >= s.opts.Fairness && (starved < 0 || t.starve > ready[starved].starve) {
					starved = i
				}
			}
			if starved >= 0 {
				idx = starved
				s.Forced++
			} else {
				idx = s.St.pick(len(ready), "task", func(r *rng) int { return s.strategyPick(r, ready) })
			}
			s.Branching++
			for i, t := range ready {
				if i == idx {
					t.starve = 0
				} else {
					t.starve++
				}
			}
		}
		t := ready[idx]
		if len(ready) > 1 {
			t.picks++
			s.Hash = (s.Hash ^ uint64(t.nameH)) * 1099511628211
			s.Hash = (s.Hash ^ uint64(idx)) * 1099511628211
		}
		s.Steps++
		s.cur = t
		if traceSched && s.opts.Log && len(s.Events) < s.opts.MaxLog {
			s.Events = append(s.Events, fmt.Sprintf("   sched -> %d %s (of %d ready, starved %d)", t.ID, t.Name, len(ready), t.starve))
		}
		t.set(stRunning)
		t.wake <- struct{}{}
		<-s.sched
	}
}

func (s *Sim) strategyPick(r *rng, ready []*Task) int {
	n := len(ready)
	switch s.Strategy {
	case 0:
		return r.intn(n)
	case 1, 2:
		p := 500
		if s.Strategy == 2 {
			p = 900
		}
		if r.permille(p) {
			return 0
		}
		return 1 + r.intn(n-1)
	default:
		// PCT: run the highest-priority ready task; at d change points the
		// task about to run drops below everything else.
		best := 0
		for i, t := range ready {
			if t.prio > ready[best].prio {
				best = i
			}
		}
		for _, cp := range s.pctChange {
			if cp == s.Steps {
				s.pctLow--
				ready[best].prio = s.pctLow
				best = 0
				for i, t := range ready {
					if t.prio > ready[best].prio {
						best = i
					}
				}
				break
			}
		}
		return best
	}
}

func (s *Sim) noteStuck() {
	for _, t := range s.tasks {
		st := t.st()
		if st == stDone || (t.daemon && st == stExternal) {
			continue
		}
		s.Stuck = append(s.Stuck, fmt.Sprintf("%s[%d %s]", t, st, t.on))
	}
}

// IOCtx, IODB and IOTx are scheduling points placed by simify in front of
// every database/sql call (the in-memory driver runs with the baton held).
func IOCtx(ctx context.Context) context.Context { IOPoint("sql"); return ctx }
func IODB(db *sql.DB) *sql.DB                   { IOPoint("sql"); return db }
func IOTx(tx *sql.Tx) *sql.Tx                   { IOPoint("sql"); return tx }
func IORows(r *sql.Rows) *sql.Rows              { IOPoint("sql"); return r }
func IORow(r *sql.Row) *sql.Row                 { IOPoint("sql"); return r }
