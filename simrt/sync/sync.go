// Package sync is the drop-in shim for the standard sync package used by
// instrumented code. Inside a simulation a task that wants a held lock is
// parked in the simulator, never in the Go runtime, and every acquire is a
// scheduling point. Outside a simulation the types fall back to small real
// locks of their own. The types deliberately contain no standard sync type:
// schemabuilder walks struct fields reflectively and enforces unique type
// names.
package sync

import (
	"runtime"
	"simrt"
	stdsync "sync"
	"sync/atomic"
	"time"
)

type Locker = stdsync.Locker

// Pool mirrors sync.Pool with a behaviour that does not depend on processors
// or the collector: Get returns the item that was Put last (or New()), so an
// object that is handed back while still in use is handed out again at once.
type Pool struct {
	New   func() interface{}
	real  int32
	gen   uint32
	items []interface{}
}

func (p *Pool) Get() interface{} {
	spinLock(&p.real)
	if g := simrt.Gen(); p.gen != g {
		p.gen, p.items = g, nil
	}
	var x interface{}
	if n := len(p.items); n > 0 {
		x, p.items = p.items[n-1], p.items[:n-1]
	}
	atomic.StoreInt32(&p.real, 0)
	if x == nil && p.New != nil {
		x = p.New()
	}
	return x
}

func (p *Pool) Put(x interface{}) {
	if x == nil {
		return
	}
	spinLock(&p.real)
	if g := simrt.Gen(); p.gen != g {
		p.gen, p.items = g, nil
	}
	p.items = append(p.items, x)
	atomic.StoreInt32(&p.real, 0)
}

type Map = stdsync.Map

func spinLock(p *int32) {
	for i := 0; !atomic.CompareAndSwapInt32(p, 0, 1); i++ {
		if i < 100 {
			runtime.Gosched()
		} else {
			time.Sleep(20 * time.Microsecond)
		}
	}
}

// Mutex mirrors sync.Mutex.
type Mutex struct {
	real    int32
	gen     uint32
	locked  bool
	waiters []int32
}

func (m *Mutex) sync() {
	if g := simrt.Gen(); m.gen != g {
		m.gen, m.locked, m.waiters = g, false, nil
	}
}

func (m *Mutex) Lock() {
	if simrt.S == nil {
		spinLock(&m.real)
		return
	}
	simrt.Yield() // terminates the task if the run is being torn down
	m.sync()
	for m.locked {
		m.waiters = append(m.waiters, int32(simrt.CurID()))
		simrt.WaitOn("mutex")
	}
	m.locked = true
}

func (m *Mutex) TryLock() bool {
	if simrt.S == nil {
		return atomic.CompareAndSwapInt32(&m.real, 0, 1)
	}
	simrt.Yield()
	m.sync()
	if m.locked {
		return false
	}
	m.locked = true
	return true
}

func (m *Mutex) Unlock() {
	if simrt.S == nil {
		if !atomic.CompareAndSwapInt32(&m.real, 1, 0) {
			panic("sync: unlock of unlocked mutex")
		}
		return
	}
	if !simrt.Active() {
		return
	}
	m.sync()
	if !m.locked {
		panic("sync: unlock of unlocked mutex")
	}
	m.locked = false
	for _, t := range m.waiters {
		simrt.MakeReadyID(int(t))
	}
	m.waiters = nil
	// a scheduling point after the release: what follows an Unlock (a read of
	// the state the lock protected, say) must be able to interleave with the
	// next holder
	simrt.YieldOnly()
}

// RWMutex mirrors sync.RWMutex (no writer preference is modelled: every
// order the real lock allows among waiters is a scheduler decision; a pending
// writer does block new readers, as in the standard library).
type RWMutex struct {
	real     int32 // fallback: -1 writer, >0 readers
	gen      uint32
	writer   bool
	readers  int
	wwaiting int
	waiters  []int32
}

func (m *RWMutex) sync() {
	if g := simrt.Gen(); m.gen != g {
		m.gen, m.writer, m.readers, m.wwaiting, m.waiters = g, false, 0, 0, nil
	}
}

func (m *RWMutex) wakeAll() {
	for _, t := range m.waiters {
		simrt.MakeReadyID(int(t))
	}
	m.waiters = nil
}

func (m *RWMutex) Lock() {
	if simrt.S == nil {
		for i := 0; !atomic.CompareAndSwapInt32(&m.real, 0, -1); i++ {
			if i < 100 {
				runtime.Gosched()
			} else {
				time.Sleep(20 * time.Microsecond)
			}
		}
		return
	}
	simrt.Yield()
	m.sync()
	for m.writer || m.readers > 0 {
		m.wwaiting++
		m.waiters = append(m.waiters, int32(simrt.CurID()))
		simrt.WaitOn("rwmutex.Lock")
		m.wwaiting--
	}
	m.writer = true
}

func (m *RWMutex) Unlock() {
	if simrt.S == nil {
		if !atomic.CompareAndSwapInt32(&m.real, -1, 0) {
			panic("sync: Unlock of unlocked RWMutex")
		}
		return
	}
	if !simrt.Active() {
		return
	}
	m.sync()
	if !m.writer {
		panic("sync: Unlock of unlocked RWMutex")
	}
	m.writer = false
	m.wakeAll()
	simrt.YieldOnly()
}

func (m *RWMutex) RLock() {
	if simrt.S == nil {
		for i := 0; ; i++ {
			v := atomic.LoadInt32(&m.real)
			if v >= 0 && atomic.CompareAndSwapInt32(&m.real, v, v+1) {
				return
			}
			if i < 100 {
				runtime.Gosched()
			} else {
				time.Sleep(20 * time.Microsecond)
			}
		}
	}
	simrt.Yield()
	m.sync()
	for m.writer || m.wwaiting > 0 {
		m.waiters = append(m.waiters, int32(simrt.CurID()))
		simrt.WaitOn("rwmutex.RLock")
	}
	m.readers++
}

func (m *RWMutex) RUnlock() {
	if simrt.S == nil {
		if atomic.AddInt32(&m.real, -1) < 0 {
			panic("sync: RUnlock of unlocked RWMutex")
		}
		return
	}
	if !simrt.Active() {
		return
	}
	m.sync()
	if m.readers <= 0 {
		panic("sync: RUnlock of unlocked RWMutex")
	}
	m.readers--
	m.wakeAll()
	simrt.YieldOnly()
}

func (m *RWMutex) RLocker() Locker { return (*rlocker)(m) }

type rlocker RWMutex

func (r *rlocker) Lock()   { (*RWMutex)(r).RLock() }
func (r *rlocker) Unlock() { (*RWMutex)(r).RUnlock() }

// WaitGroup mirrors sync.WaitGroup.
type WaitGroup struct {
	real    int32
	gen     uint32
	n       int
	epoch   int // times the counter came back to zero
	waiters []int32
}

func (w *WaitGroup) sync() {
	if g := simrt.Gen(); w.gen != g {
		w.gen, w.n, w.waiters, w.epoch = g, 0, nil, 0
	}
}

func (w *WaitGroup) Add(d int) {
	if simrt.S == nil {
		if atomic.AddInt32(&w.real, int32(d)) < 0 {
			panic("sync: negative WaitGroup counter")
		}
		return
	}
	if !simrt.Active() {
		return
	}
	w.sync()
	w.n += d
	if w.n < 0 {
		panic("sync: negative WaitGroup counter")
	}
	if w.n == 0 {
		w.epoch++
		for _, t := range w.waiters {
			simrt.MakeReadyID(int(t))
		}
		w.waiters = nil
	}
}

func (w *WaitGroup) Done() { w.Add(-1) }

func (w *WaitGroup) Wait() {
	if simrt.S == nil {
		for i := 0; atomic.LoadInt32(&w.real) > 0; i++ {
			if i < 100 {
				runtime.Gosched()
			} else {
				time.Sleep(20 * time.Microsecond)
			}
		}
		return
	}
	simrt.Yield()
	w.sync()
	if w.n > 0 {
		e := w.epoch
		for w.epoch == e {
			w.waiters = append(w.waiters, int32(simrt.CurID()))
			simrt.WaitOn("waitgroup")
		}
		// as sync.WaitGroup: a waiter that wakes up after the counter reached
		// zero and finds the group counting again was overtaken by a new Add
		if w.n != 0 {
			panic("sync: WaitGroup is reused before previous Wait has returned")
		}
	}
}

// Once mirrors sync.Once.
type Once struct {
	done int32
	m    Mutex
}

func (o *Once) Do(f func()) {
	if atomic.LoadInt32(&o.done) == 1 {
		return
	}
	o.m.Lock()
	defer o.m.Unlock()
	if o.done == 0 {
		defer atomic.StoreInt32(&o.done, 1)
		f()
	}
}
