// Package runner drives simulated runs: seed loop, violation collection,
// reproduction check, minimisation, replay files and the per-worker result
// file that the check script aggregates into the evidence file. It is part
// of the trusted runtime and is not instrumented.
package runner

import (
	"encoding/json"
	"flag"
	"fmt"
	"os"
	"path/filepath"
	"sort"
	"strings"
	"syscall"
	"testing"
	"time"

	"simrt"
)

// Violation is one oracle failure of one run.
type Violation struct {
	Prop string `json:"property"`
	Key  string `json:"key"` // oracle clause + discriminating trigger
	Msg  string `json:"message"`
}

// Ctx is handed to a scenario body (which runs as the simulation's main task).
type Ctx struct {
	Prop, Tier string
	Class      string // run class chosen by the scenario (e.g. fault-free / faulty)
	Faults     map[string]int
	Probes     map[string]int
	Viol       []Violation
	nontrivial bool
	Sample     []string
	Opts       simrt.Options
	RunIndex   int
	// WallGuard > 0: the scenario fed the system an input whose handling must
	// take a bounded amount of real time; a run that takes longer in real
	// (wall-clock) time is reported as the violation "input-blowup".
	WallGuard time.Duration
	WallNote  string
	frozen    bool // set by the watchdog: the run uses no CPU and does not end
}

// Choose draws from the decision stream.
func (c *Ctx) Choose(n int, kind string) int { return simrt.Choose(n, kind) }

// Biased draws 0 with probability p0 permille.
func (c *Ctx) Biased(n, p0 int, kind string) int { return simrt.Biased(n, p0, kind) }

// Fault counts one firing of a fault kind.
func (c *Ctx) Fault(kind string) {
	c.Faults[kind]++
	simrt.Logf("FAULT %s", kind)
}

// Probe counts a reach probe.
func (c *Ctx) Probe(name string) { c.Probes[name]++ }

// NonTrivial marks the run as having reached the property's core operation.
func (c *Ctx) NonTrivial() { c.nontrivial = true }

// Violate records an oracle failure.
func (c *Ctx) Violate(key, format string, args ...interface{}) {
	msg := fmt.Sprintf(format, args...)
	for _, v := range c.Viol {
		if v.Key == key {
			return
		}
	}
	c.Viol = append(c.Viol, Violation{c.Prop, key, msg})
	simrt.Logf("VIOLATION %s: %s", key, msg)
}

// ViolateFor records an oracle failure only when the property being checked
// is one of props (comma separated): one harness serves several properties
// and each oracle clause belongs to specific ones.
func (c *Ctx) ViolateFor(props, key, format string, args ...interface{}) {
	if strings.Contains(","+props+",", ","+c.Prop+",") {
		c.Violate(key, format, args...)
	}
}

// Logf appends to the run's event log.
func (c *Ctx) Logf(format string, args ...interface{}) { simrt.Logf(format, args...) }

// Describe adds a line to the compact description of the run kept as an
// evidence sample.
func (c *Ctx) Describe(format string, args ...interface{}) {
	if len(c.Sample) < 40 {
		c.Sample = append(c.Sample, fmt.Sprintf(format, args...))
	}
}

// Scenario is one simulated system + workload + oracle.
type Scenario struct {
	Name string
	// Options may adjust simulator options for the run before it starts; it
	// is called outside the simulation and must not draw decisions.
	Options func(tier string) simrt.Options
	Body    func(c *Ctx)
}

var registry = map[string][]Scenario{}

// Register adds a scenario for a property.
func Register(prop string, sc Scenario) { registry[prop] = append(registry[prop], sc) }

// Known finding entries (committed file, never written at run time).
type Finding struct {
	Prop   string `json:"property"`
	Key    string `json:"key"`
	Status string `json:"status"` // open | fixed
	What   string `json:"what"`
	Commit string `json:"commit,omitempty"`
}

type findingsFile struct {
	Findings []Finding `json:"findings"`
}

// RunResult is the outcome of one simulated run.
type RunResult struct {
	Viol      []Violation
	Decisions []int
	Rec       []simrt.Decision
	Sim       *simrt.Sim
	Ctx       *Ctx
	Infra     string // non-empty: machinery problem (deadlock of the harness, lazy keys, ...)
	CPU       time.Duration
}

// onBlowup is installed by the search and replay loops: called (from the
// watchdog goroutine) when a guarded run is still going after 8 x its guard.
var onBlowup func(c *Ctx, sc Scenario, st *simrt.Stream, idx int, wall time.Duration)

// runawayCPU: no run of any scenario needs anywhere near this much CPU time
// (the slowest of millions took seconds); a run that does is stuck in a loop
// that never reaches a scheduling point.
const runawayCPU = 120 * time.Second

// frozenAfter: a worker runs one simulated run at a time and is never idle
// while it does; one that uses no CPU at all for this long is blocked outside
// the simulator (on a busy machine a starved process still gets some CPU).
const frozenAfter = 45 * time.Second

func blowupKey(c *Ctx) string {
	if c.frozen {
		return "run-does-not-terminate"
	}
	if c.WallGuard > 0 {
		return "input-blowup"
	}
	return "run-does-not-terminate"
}

func blowupMessage(c *Ctx, cpu time.Duration) string {
	if c.frozen {
		return fmt.Sprintf("the run stopped making progress without using the CPU (%.1f s used, then idle for %v): a goroutine is blocked for good on something the simulator does not manage - for example database/sql's lock on a result set, still held after a panic inside Scan, when the deferred Close wants it", cpu.Seconds(), frozenAfter)
	}
	if c.WallGuard == 0 {
		return fmt.Sprintf("the run was still going after %.0f s of CPU time: some task loops without ever reaching a scheduling point (no simulated run needs more than a few seconds)", cpu.Seconds())
	}
	return fmt.Sprintf("the run was still going after %.0f s of CPU time (guard %v) once this input was sent: %s", cpu.Seconds(), c.WallGuard, c.WallNote)
}

// cpuTime is the CPU time (user + system) this process has used. The guard on
// input handling is measured in CPU time: one run executes at a time in a
// worker process, and unlike wall-clock time it does not grow when the machine
// is busy with other work.
func cpuTime() time.Duration {
	var ru syscall.Rusage
	if err := syscall.Getrusage(syscall.RUSAGE_SELF, &ru); err != nil {
		return 0
	}
	return time.Duration(ru.Utime.Nano() + ru.Stime.Nano())
}

func runOne(t *testing.T, prop, tier string, sc Scenario, st *simrt.Stream, log bool, idx int) *RunResult {
	c := &Ctx{Prop: prop, Tier: tier, Faults: map[string]int{}, Probes: map[string]int{}, RunIndex: idx}
	var opts simrt.Options
	if sc.Options != nil {
		opts = sc.Options(tier)
	}
	opts.Log = log
	cpu0 := cpuTime()
	// A run whose scenario set a wall-clock guard (an input whose handling must
	// take bounded real time) may never come back at all. A watchdog on a real
	// goroutine outside the simulation then reports the blow-up itself: the
	// goroutine burning the CPU cannot be stopped, so the process ends there.
	stopWatch := make(chan struct{})
	go func() {
		tick := time.NewTicker(500 * time.Millisecond)
		defer tick.Stop()
		markCPU, markAt := cpu0, time.Now()
		confirming, confirmAt, confirmCPU := false, time.Now(), cpu0
		for {
			select {
			case <-stopWatch:
				return
			case <-tick.C:
				used := cpuTime() - cpu0
				if now := cpuTime(); now-markCPU > 100*time.Millisecond {
					markCPU, markAt = now, time.Now()
					confirming = false
				} else if onBlowup != nil && time.Since(markAt) > frozenAfter {
					// The clock may have jumped (the machine was suspended, the
					// process was starved): only a run that still uses no CPU at
					// all during a further quarter of a minute is blocked.
					if !confirming {
						confirming, confirmAt, confirmCPU = true, time.Now(), now
					} else if now-confirmCPU > 20*time.Millisecond {
						markCPU, markAt, confirming = now, time.Now(), false
					} else if time.Since(confirmAt) > 15*time.Second {
						c.frozen = true
						onBlowup(c, sc, st, idx, used)
						return
					}
				}
				if g := c.WallGuard; onBlowup != nil && ((g > 0 && used > 8*g) || used > runawayCPU) {
					onBlowup(c, sc, st, idx, used)
					return
				}
			}
		}
	}()
	sim := simrt.Run(t, st, opts, func() {
		sc.Body(c)
	})
	close(stopWatch)
	res := &RunResult{Sim: sim, Ctx: c, Rec: st.Rec}
	res.Decisions = st.Values()
	res.Viol = append(res.Viol, c.Viol...)
	res.CPU = cpuTime() - cpu0
	if c.WallGuard > 0 && res.CPU > c.WallGuard {
		res.Viol = append(res.Viol, Violation{prop, "input-blowup", fmt.Sprintf("the run took %.1f s of CPU time (guard %v) after this input was sent: %s", res.CPU.Seconds(), c.WallGuard, c.WallNote)})
	}
	for _, p := range sim.Panics {
		first := p
		if i := strings.Index(first, "\n"); i >= 0 {
			first = first[:i]
		}
		if strings.HasPrefix(first, "bubble:") {
			res.Infra = first
			continue
		}
		key := "uncaught-panic/" + panicClass(first)
		dup := false
		for _, v := range res.Viol {
			if v.Key == key {
				dup = true
			}
		}
		if !dup {
			res.Viol = append(res.Viol, Violation{prop, key, p})
		}
	}
	raceKeys := make([]string, 0, len(sim.Races))
	for k := range sim.Races {
		raceKeys = append(raceKeys, k)
	}
	sort.Strings(raceKeys)
	for _, k := range raceKeys {
		if strings.HasPrefix(k, "update:") {
			res.Viol = append(res.Viol, Violation{prop, "concurrent-update/" + strings.TrimPrefix(k, "update:"), sim.Races[k]})
			continue
		}
		res.Viol = append(res.Viol, Violation{prop, "concurrent-map-access/" + k, sim.Races[k]})
	}
	if sim.Deadlock {
		res.Infra = "harness deadlock: main task never finished; stuck: " + strings.Join(sim.Stuck, ", ")
	}
	if sim.LazyKeys > 0 {
		res.Infra = fmt.Sprintf("%d pointer map keys were first seen while sorting (nondeterministic iteration order): %v", sim.LazyKeys, sim.LazyWhere)
	}
	return res
}

// panicClass reduces a panic's first line to a stable class (task ids and
// addresses removed).
func panicClass(first string) string {
	if i := strings.Index(first, ": "); i >= 0 && strings.HasPrefix(first, "task ") {
		first = first[i+2:]
	}
	var sb strings.Builder
	for _, f := range strings.Fields(first) {
		if strings.HasPrefix(f, "0x") || strings.HasPrefix(f, "&{") {
			f = "_"
		}
		if sb.Len() > 0 {
			sb.WriteByte(' ')
		}
		sb.WriteString(f)
		if sb.Len() > 80 {
			break
		}
	}
	return sb.String()
}

func hasKey(vs []Violation, key string) bool {
	for _, v := range vs {
		if v.Key == key {
			return true
		}
	}
	return false
}

// ---------------------------------------------------------------------------
// flags and entry point

var (
	fProp     = flag.String("sim.prop", "", "property id")
	fTier     = flag.String("sim.tier", "quick", "quick|thorough")
	fSeed     = flag.Uint64("sim.seed", 1, "base seed (VERIF_SEED)")
	fWorker   = flag.Int("sim.worker", 0, "worker index")
	fWorkers  = flag.Int("sim.workers", 1, "number of workers")
	fBudget   = flag.Duration("sim.budget", 30*time.Second, "wall-clock budget of this worker")
	fMaxRuns  = flag.Int("sim.maxruns", 0, "maximum runs of this worker (0 = budget only)")
	fOut      = flag.String("sim.out", "", "result file")
	fReplay   = flag.String("sim.replay", "", "replay file to execute")
	fReplays  = flag.String("sim.replaydir", "", "directory for replay files")
	fFindings = flag.String("sim.findings", "", "known findings file")
	fDet      = flag.Int("sim.determinism", 0, "determinism self-test: run this many seeds twice and print one line per run")
	fScenario = flag.String("sim.scenario", "", "restrict to one scenario name")
	fRunIdx   = flag.Int("sim.runindex", -1, "execute exactly this run index (with logging) and print its event log")
)

// WorkerResult is what one worker process reports.
type WorkerResult struct {
	Prop        string                   `json:"property"`
	Tier        string                   `json:"tier"`
	Seed        uint64                   `json:"seed"`
	Worker      int                      `json:"worker"`
	Runs        int                      `json:"runs"`
	NonTrivial  int                      `json:"nontrivial_runs"`
	Hashes      []uint64                 `json:"nontrivial_hashes"`
	Steps       int64                    `json:"steps"`
	Branching   int64                    `json:"branching_decisions"`
	Decisions   int64                    `json:"decisions"`
	SimSeconds  float64                  `json:"sim_seconds"`
	WallSeconds float64                  `json:"wall_seconds"`
	Faults      map[string]int           `json:"faults"`
	Probes      map[string]int           `json:"probes"`
	Spawns      map[string]int           `json:"spawn_sites"`
	Strategies  map[string]int           `json:"strategies"`
	Scenarios   map[string]int           `json:"scenarios"`
	Classes     map[string]int           `json:"classes"`
	Exhausted   int                      `json:"exhausted_runs"`
	Stalls      int                      `json:"stalls"`
	Samples     []map[string]interface{} `json:"samples"`
	Violations  []map[string]interface{} `json:"violations"`
	Known       []map[string]interface{} `json:"known_findings"`
	Infra       []string                 `json:"infra"`
	MaxRunWall  float64                  `json:"max_run_wall_seconds"`
	SlowRuns    []map[string]interface{} `json:"slow_runs"`
	_           struct{}
}

// ReplayFile is the on-disk form of a failing (minimised) run.
type ReplayFile struct {
	Prop       string           `json:"property"`
	Scenario   string           `json:"scenario"`
	Tier       string           `json:"tier"`
	Seed       uint64           `json:"seed"`
	RunIndex   int              `json:"run_index"`
	Key        string           `json:"violation_key"`
	Message    string           `json:"message"`
	Decisions  []int            `json:"decisions"`
	Original   int              `json:"original_decisions"`
	NonZero    int              `json:"nonzero_decisions"`
	ShrinkRuns int              `json:"shrink_executions"`
	Trace      []simrt.Decision `json:"decision_trace"`
	Events     []string         `json:"events"`
	Repo       string           `json:"repo_state"`
	// FromSeed: no decision list (the process died during the run, e.g. a
	// stack overflow in the code under test); the run is re-created from
	// (seed, run_index), which is just as deterministic
	FromSeed bool `json:"from_seed,omitempty"`
}

func mix(seed uint64, k int) uint64 {
	z := seed + uint64(k+1)*0x9e3779b97f4a7c15
	z = (z ^ (z >> 30)) * 0xbf58476d1ce4e5b9
	z = (z ^ (z >> 27)) * 0x94d049bb133111eb
	return z ^ (z >> 31)
}

func loadFindings(path string) []Finding {
	if path == "" {
		return nil
	}
	b, err := os.ReadFile(path)
	if err != nil {
		return nil
	}
	var f findingsFile
	if err := json.Unmarshal(b, &f); err != nil {
		fmt.Fprintf(os.Stderr, "known findings file unreadable: %v\n", err)
		os.Exit(2)
	}
	return f.Findings
}

func knownOpen(fs []Finding, prop, key string) *Finding {
	for i := range fs {
		if fs[i].Prop == prop && fs[i].Status == "open" && matchKey(fs[i].Key, key) {
			return &fs[i]
		}
	}
	return nil
}

// matchKey: exact match, or prefix match when the finding key ends in '*'.
func matchKey(pat, key string) bool {
	if strings.HasSuffix(pat, "*") {
		return strings.HasPrefix(key, strings.TrimSuffix(pat, "*"))
	}
	return pat == key
}

// Main is called from the harness's TestSim.
func Main(t *testing.T) {
	if *fProp == "" {
		t.Skip("no -sim.prop")
	}
	scs := registry[*fProp]
	if *fScenario != "" {
		var f []Scenario
		for _, s := range scs {
			if s.Name == *fScenario {
				f = append(f, s)
			}
		}
		scs = f
	}
	if len(scs) == 0 {
		fmt.Fprintf(os.Stderr, "no scenario registered for %s\n", *fProp)
		os.Exit(2)
	}
	switch {
	case *fReplay != "":
		os.Exit(replayMain(t, scs))
	case *fDet > 0:
		os.Exit(determinismMain(t, scs))
	case *fRunIdx >= 0:
		sc := scs[*fRunIdx%len(scs)]
		res := runOne(t, *fProp, *fTier, sc, simrt.NewSearch(mix(*fSeed, *fRunIdx)), true, *fRunIdx)
		for _, e := range res.Sim.Events {
			fmt.Println(e)
		}
		fmt.Printf("scenario=%s steps=%d branching=%d hash=%x viol=%v infra=%q exhausted=%v\n", sc.Name, res.Sim.Steps, res.Sim.Branching, res.Sim.Hash, res.Viol, res.Infra, res.Sim.Exhausted)
		os.Exit(0)
	default:
		os.Exit(searchMain(t, scs))
	}
}

func searchMain(t *testing.T, scs []Scenario) int {
	findings := loadFindings(*fFindings)
	wr := &WorkerResult{Prop: *fProp, Tier: *fTier, Seed: *fSeed, Worker: *fWorker,
		Faults: map[string]int{}, Probes: map[string]int{}, Spawns: map[string]int{}, Strategies: map[string]int{},
		Scenarios: map[string]int{}, Classes: map[string]int{}}
	hashes := map[uint64]bool{}
	start := time.Now()
	seenKeys := map[string]bool{}
	unknown := 0
	exit := 0
	var cur *os.File
	if *fOut != "" {
		cur, _ = os.Create(*fOut + ".current")
	}
	finish := func() int {
		for h := range hashes {
			wr.Hashes = append(wr.Hashes, h)
		}
		sort.Slice(wr.Hashes, func(i, j int) bool { return wr.Hashes[i] < wr.Hashes[j] })
		wr.WallSeconds = time.Since(start).Seconds()
		if *fOut != "" {
			b, _ := json.Marshal(wr)
			if err := os.WriteFile(*fOut, b, 0644); err != nil {
				fmt.Fprintln(os.Stderr, err)
				return 2
			}
		}
		return 0
	}
	onBlowup = func(c *Ctx, sc Scenario, st *simrt.Stream, idx int, wall time.Duration) {
		// the run never came back: report it with the decisions drawn so far
		// (replaying them re-creates the same input) and end the worker
		msg := blowupMessage(c, wall)
		vals := st.Snapshot(300000)
		key := blowupKey(c)
		rf := &ReplayFile{Prop: *fProp, Scenario: sc.Name, Tier: *fTier, Seed: *fSeed, RunIndex: idx, Key: key, Message: msg,
			Decisions: trimZeros(vals), Original: len(vals), NonZero: nonZero(vals), Repo: os.Getenv("VERIF_REPO_STATE")}
		path := ""
		if *fReplays != "" {
			path = filepath.Join(*fReplays, fmt.Sprintf("%s-%s-%d-%d.json", *fProp, key, *fSeed, idx))
			b, _ := json.MarshalIndent(rf, "", " ")
			os.MkdirAll(*fReplays, 0755)
			os.WriteFile(path, b, 0644)
		}
		entry := map[string]interface{}{"key": key, "message": msg, "replay": path, "run_index": idx, "scenario": sc.Name,
			"decisions": len(rf.Decisions), "nonzero": rf.NonZero, "original_decisions": rf.Original}
		if kf := knownOpen(findings, *fProp, key); kf != nil {
			entry["finding"] = kf.What
			wr.Known = append(wr.Known, entry)
		} else {
			wr.Violations = append(wr.Violations, entry)
		}
		wr.Runs++
		finish()
		os.Exit(1)
	}
	for k := *fWorker; ; k += *fWorkers {
		if *fMaxRuns > 0 && wr.Runs >= *fMaxRuns {
			break
		}
		if time.Since(start) > *fBudget {
			break
		}
		sc := scs[k%len(scs)]
		seed := mix(*fSeed, k)
		st := simrt.NewSearch(seed)
		if cur != nil {
			// which run this process is in, should it die in it
			cur.WriteAt([]byte(fmt.Sprintf("%-12d %-40s\n", k, sc.Name)), 0)
		}
		t0 := time.Now()
		res := runOne(t, *fProp, *fTier, sc, st, false, k)
		wall := time.Since(t0).Seconds()
		if wall > wr.MaxRunWall {
			wr.MaxRunWall = wall
		}
		if wall > 5 && len(wr.SlowRuns) < 5 {
			wr.SlowRuns = append(wr.SlowRuns, map[string]interface{}{"run_index": k, "scenario": sc.Name, "wall_seconds": wall, "steps": res.Sim.Steps})
		}
		wr.Runs++
		wr.Scenarios[sc.Name]++
		if res.Ctx.Class != "" {
			wr.Classes[res.Ctx.Class]++
		}
		wr.Steps += int64(res.Sim.Steps)
		wr.Branching += int64(res.Sim.Branching)
		wr.Decisions += int64(st.Draws)
		wr.SimSeconds += res.Sim.End.Seconds()
		wr.Stalls += res.Sim.Stalls
		if res.Sim.Parks > 0 {
			wr.Faults["long-preemption"] += res.Sim.Parks
		}
		if res.Sim.Stalls > 0 {
			wr.Faults["task-stall"] += res.Sim.Stalls
		}
		if res.Sim.Pauses > 0 {
			wr.Faults["slow-task"] += res.Sim.Pauses
		}
		wr.Strategies[[]string{"uniform", "sticky50", "sticky90", "pct1", "pct2", "pct3"}[res.Sim.Strategy]]++
		for f, n := range res.Ctx.Faults {
			wr.Faults[f] += n
		}
		for f, n := range res.Ctx.Probes {
			wr.Probes[f] += n
		}
		if res.Sim.MapOps > 0 {
			wr.Probes["shared-map-access-watched"] += res.Sim.MapOps
		}
		for f, n := range res.Sim.SpawnCnt {
			wr.Spawns[f] += n
		}
		if res.Sim.Exhausted {
			wr.Exhausted++
		}
		if res.Ctx.nontrivial && res.Sim.Branching > 0 {
			wr.NonTrivial++
			hashes[res.Sim.Hash] = true
		}
		if len(wr.Samples) < 3 && res.Ctx.nontrivial && len(res.Ctx.Sample) > 0 {
			wr.Samples = append(wr.Samples, map[string]interface{}{"run_index": k, "scenario": sc.Name, "class": res.Ctx.Class, "steps": res.Sim.Steps,
				"sim_time": res.Sim.End.String(), "schedule_hash": fmt.Sprintf("%016x", res.Sim.Hash), "description": res.Ctx.Sample})
		}
		if res.Infra != "" && len(res.Viol) == 0 {
			wr.Infra = append(wr.Infra, fmt.Sprintf("run %d (%s): %s", k, sc.Name, res.Infra))
			exit = 2
			break
		}
		// (a harness task stuck *after* a violation was recorded is a consequence
		// of the broken system under test: the violation is what gets reported)
		for _, v := range res.Viol {
			if seenKeys[v.Key] {
				continue
			}
			seenKeys[v.Key] = true
			// reproduce from the recorded decisions first
			rep := runOne(t, *fProp, *fTier, sc, simrt.NewReplay(res.Decisions), false, k)
			if v.Key == "input-blowup" && !hasKey(rep.Viol, v.Key) && res.Ctx.WallGuard > 0 && rep.CPU < res.Ctx.WallGuard/2 {
				// a measurement that does not come back at even half the guard was
				// noise of the machine, not a property of the input
				wr.SlowRuns = append(wr.SlowRuns, map[string]interface{}{"run_index": k, "scenario": sc.Name, "note": "CPU guard exceeded once, not on replay", "cpu_seconds": res.CPU.Seconds(), "replay_cpu_seconds": rep.CPU.Seconds()})
				continue
			}
			if !hasKey(rep.Viol, v.Key) {
				wr.Infra = append(wr.Infra, fmt.Sprintf("run %d (%s): violation %q did not reproduce from its recorded decisions (nondeterminism in the machinery)", k, sc.Name, v.Key))
				exit = 2
				continue
			}
			kf := knownOpen(findings, v.Prop, v.Key)
			vals, shrinkRuns := res.Decisions, 0
			if kf == nil {
				// known findings are reported with their unminimised witness: the
				// budget goes into searching for violations that are not known
				vals, shrinkRuns = shrink(t, sc, k, res.Decisions, v.Key)
			}
			final := runOne(t, *fProp, *fTier, sc, simrt.NewReplay(vals), true, k)
			msg := v.Msg
			for _, fv := range final.Viol {
				if fv.Key == v.Key {
					msg = fv.Msg
				}
			}
			rf := &ReplayFile{Prop: v.Prop, Scenario: sc.Name, Tier: *fTier, Seed: *fSeed, RunIndex: k, Key: v.Key, Message: msg,
				Decisions: trimZeros(vals), Original: len(res.Decisions), NonZero: nonZero(vals), ShrinkRuns: shrinkRuns,
				Trace: trimTrace(final.Rec), Events: final.Sim.Events, Repo: os.Getenv("VERIF_REPO_STATE")}
			path := ""
			if *fReplays != "" {
				path = filepath.Join(*fReplays, fmt.Sprintf("%s-%s-%d-%d.json", v.Prop, sanitize(v.Key), *fSeed, k))
				b, _ := json.MarshalIndent(rf, "", " ")
				os.MkdirAll(*fReplays, 0755)
				os.WriteFile(path, b, 0644)
			}
			entry := map[string]interface{}{"key": v.Key, "message": msg, "replay": path, "run_index": k, "scenario": sc.Name,
				"decisions": len(rf.Decisions), "nonzero": rf.NonZero, "original_decisions": rf.Original}
			if kf != nil {
				entry["finding"] = kf.What
				wr.Known = append(wr.Known, entry)
			} else {
				wr.Violations = append(wr.Violations, entry)
				unknown++
			}
		}
		if unknown > 0 {
			break
		}
	}
	if rc := finish(); rc != 0 {
		return rc
	}
	if exit == 2 {
		for _, s := range wr.Infra {
			fmt.Fprintln(os.Stderr, "INFRA:", s)
		}
		return 2
	}
	if unknown > 0 {
		return 1
	}
	return 0
}

func sanitize(s string) string {
	var sb strings.Builder
	for _, r := range s {
		if (r >= 'a' && r <= 'z') || (r >= 'A' && r <= 'Z') || (r >= '0' && r <= '9') || r == '-' || r == '_' {
			sb.WriteRune(r)
		} else {
			sb.WriteByte('_')
		}
		if sb.Len() > 60 {
			break
		}
	}
	return sb.String()
}

func trimZeros(v []int) []int {
	n := len(v)
	for n > 0 && v[n-1] == 0 {
		n--
	}
	return append([]int{}, v[:n]...)
}

func nonZero(v []int) int {
	n := 0
	for _, x := range v {
		if x != 0 {
			n++
		}
	}
	return n
}

func trimTrace(rec []simrt.Decision) []simrt.Decision {
	// keep non-zero decisions and everything that is not a plain task pick
	var out []simrt.Decision
	for _, d := range rec {
		if d.V != 0 || (d.Kind != "task" && d.Kind != "select" && d.Kind != "maporder" && d.Kind != "stall") {
			out = append(out, d)
		}
		if len(out) >= 400 {
			break
		}
	}
	return out
}

// shrink minimises a decision list while the violation key persists.
func shrink(t *testing.T, sc Scenario, idx int, vals []int, key string) ([]int, int) {
	execs := 0
	deadline := time.Now().Add(60 * time.Second)
	spent := func() bool { return execs >= 2000 || time.Now().After(deadline) }
	fails := func(c []int) bool {
		if spent() {
			return false
		}
		execs++
		r := runOne(t, *fProp, *fTier, sc, simrt.NewReplay(c), false, idx)
		return r.Infra == "" && hasKey(r.Viol, key)
	}
	cur := append([]int{}, vals...)
	// 1. truncate the tail
	lo, hi := 0, len(cur)
	for lo < hi {
		mid := (lo + hi) / 2
		if fails(cur[:mid]) {
			hi = mid
		} else {
			lo = mid + 1
		}
	}
	if hi < len(cur) && fails(cur[:hi]) {
		cur = append([]int{}, cur[:hi]...)
	}
	for pass := 0; pass < 3 && !spent(); pass++ {
		before := nonZero(cur)*100000 + len(cur)
		// 2. zero blocks, then single entries
		for size := len(cur) / 2; size >= 1 && !spent(); size /= 2 {
			for i := 0; i+size <= len(cur) && !spent(); i += size {
				nz := false
				for _, x := range cur[i : i+size] {
					if x != 0 {
						nz = true
					}
				}
				if !nz {
					continue
				}
				c := append([]int{}, cur...)
				for j := i; j < i+size; j++ {
					c[j] = 0
				}
				if fails(c) {
					cur = c
				}
			}
		}
		// 3. delete blocks
		for size := 8; size >= 1 && !spent(); size /= 2 {
			for i := 0; i+size <= len(cur) && !spent(); {
				c := append(append([]int{}, cur[:i]...), cur[i+size:]...)
				if fails(c) {
					cur = c
				} else {
					i += size
				}
			}
		}
		// 4. lower values
		for i := range cur {
			if spent() {
				break
			}
			for cur[i] > 1 {
				c := append([]int{}, cur...)
				c[i] = cur[i] / 2
				if fails(c) {
					cur = c
				} else {
					break
				}
			}
		}
		cur = trimZeros(cur)
		if nonZero(cur)*100000+len(cur) >= before {
			break
		}
	}
	return cur, execs
}

func replayMain(t *testing.T, scs []Scenario) int {
	b, err := os.ReadFile(*fReplay)
	if err != nil {
		fmt.Fprintln(os.Stderr, err)
		return 2
	}
	var rf ReplayFile
	if err := json.Unmarshal(b, &rf); err != nil {
		fmt.Fprintln(os.Stderr, err)
		return 2
	}
	for _, sc := range registry[rf.Prop] {
		if sc.Name != rf.Scenario {
			continue
		}
		onBlowup = func(c *Ctx, sc Scenario, st *simrt.Stream, idx int, wall time.Duration) {
			fmt.Printf("violation key=%s: %s\n", blowupKey(c), blowupMessage(c, wall))
			if rf.Key == blowupKey(c) {
				fmt.Printf("REPRODUCED property=%s key=%s\n", rf.Prop, rf.Key)
				os.Exit(1)
			}
			fmt.Fprintln(os.Stderr, "INFRA: the replayed run does not terminate")
			os.Exit(2)
		}
		stream := simrt.NewReplay(rf.Decisions)
		if rf.FromSeed {
			stream = simrt.NewSearch(mix(rf.Seed, rf.RunIndex))
		}
		res := runOne(t, rf.Prop, rf.Tier, sc, stream, true, rf.RunIndex)
		for _, e := range res.Sim.Events {
			fmt.Println(e)
		}
		if res.Infra != "" {
			fmt.Fprintln(os.Stderr, "INFRA:", res.Infra)
			return 2
		}
		for _, v := range res.Viol {
			fmt.Printf("violation key=%s: %s\n", v.Key, v.Msg)
		}
		if hasKey(res.Viol, rf.Key) {
			fmt.Printf("REPRODUCED property=%s key=%s\n", rf.Prop, rf.Key)
			return 1
		}
		fmt.Printf("NOT-REPRODUCED property=%s key=%s (run is clean on this tree)\n", rf.Prop, rf.Key)
		return 0
	}
	fmt.Fprintf(os.Stderr, "scenario %s/%s not found\n", rf.Prop, rf.Scenario)
	return 2
}

// determinismMain runs seeds twice in-process and prints one line per run so
// that separate processes (other GOMAXPROCS) can be diffed.
func determinismMain(t *testing.T, scs []Scenario) int {
	bad := 0
	for k := 0; k < *fDet; k++ {
		sc := scs[k%len(scs)]
		seed := mix(*fSeed, k)
		a := runOne(t, *fProp, *fTier, sc, simrt.NewSearch(seed), true, k)
		b := runOne(t, *fProp, *fTier, sc, simrt.NewSearch(seed), true, k)
		la, lb := strings.Join(a.Sim.Events, "\n"), strings.Join(b.Sim.Events, "\n")
		same := a.Sim.Hash == b.Sim.Hash && a.Sim.Steps == b.Sim.Steps && la == lb && len(a.Decisions) == len(b.Decisions)
		c := simrt.NewReplay(a.Decisions)
		r := runOne(t, *fProp, *fTier, sc, c, true, k)
		lr := strings.Join(r.Sim.Events, "\n")
		same = same && r.Sim.Hash == a.Sim.Hash && lr == la
		if !same {
			bad++
			fmt.Printf("DIVERGED run=%d scenario=%s\n", k, sc.Name)
			if os.Getenv("SIM_DET_VERBOSE") != "" {
				ea, eb := a.Sim.Events, b.Sim.Events
				if la == lb {
					eb = r.Sim.Events
				}
				for i := 0; i < len(ea) && i < len(eb); i++ {
					if ea[i] != eb[i] {
						fmt.Printf("  first difference at event %d:\n   A: %s\n   B: %s\n", i, ea[i], eb[i])
						break
					}
				}
			}
		}
		fmt.Printf("run=%d scenario=%s steps=%d decisions=%d hash=%016x events=%d evhash=%08x viol=%d infra=%q\n", k, sc.Name, a.Sim.Steps, len(a.Decisions), a.Sim.Hash, len(a.Sim.Events), fnv(la), len(a.Viol), a.Infra)
	}
	if bad > 0 {
		return 2
	}
	return 0
}

func fnv(s string) uint32 {
	h := uint32(2166136261)
	for i := 0; i < len(s); i++ {
		h ^= uint32(s[i])
		h *= 16777619
	}
	return h
}
