module simrt

go 1.26
