package simrt

// The decision stream: the single source of every nondeterministic choice of a
// simulated run (task picks, select poll order, map iteration rotation,
// workload generation, delays, fault firings). In search mode values come from
// a PRNG seeded with one integer and are recorded; in replay mode the recorded
// values are fed back (value mod n, 0 once the list is exhausted). A run is a
// pure function of (instrumented code, scenario, decision list).
//
// Convention: 0 is always the boring choice (no preemption, no fault, no
// delay, smallest workload) so that an all-zero list is a valid run and the
// generic shrinker can truncate, zero and delete entries freely.

// Decision is one recorded draw.
type Decision struct {
	Kind string
	N    int
	V    int
}

// splitmix64-based generator: tiny, fast, identical on every platform.
type rng struct{ s uint64 }

func (r *rng) next() uint64 {
	r.s += 0x9e3779b97f4a7c15
	z := r.s
	z = (z ^ (z >> 30)) * 0xbf58476d1ce4e5b9
	z = (z ^ (z >> 27)) * 0x94d049bb133111eb
	return z ^ (z >> 31)
}

func (r *rng) intn(n int) int {
	if n <= 1 {
		return 0
	}
	return int(r.next() % uint64(n))
}

func (r *rng) permille(p int) bool { return int(r.next()%1000) < p }

// Stream is the decision stream of one run.
type Stream struct {
	Seed   uint64
	replay bool
	vals   []int
	pos    int
	r      rng
	Rec    []Decision
	// Draws counts all draws, NonZero those whose value was not 0.
	Draws, NonZero int
	// KeepRec can be set to false to avoid the recording cost in bulk search
	// runs (the run is then re-executed with recording on if it fails).
	KeepRec bool
}

// NewSearch returns a stream drawing from a PRNG seeded with seed.
func NewSearch(seed uint64) *Stream {
	return &Stream{Seed: seed, r: rng{s: seed*0x9e3779b97f4a7c15 + 0x1234567}, KeepRec: true}
}

// NewReplay returns a stream feeding back vals.
func NewReplay(vals []int) *Stream {
	return &Stream{replay: true, vals: vals, KeepRec: true}
}

// Replaying reports whether the stream feeds back recorded values.
func (st *Stream) Replaying() bool { return st.replay }

// Values returns the recorded values only.
func (st *Stream) Values() []int {
	out := make([]int, len(st.Rec))
	for i, d := range st.Rec {
		out[i] = d.V
	}
	return out
}

// Snapshot copies the first (at most max) recorded values while the stream
// may still be growing in another goroutine (used by the blow-up watchdog; a
// torn read of the newest element is harmless there).
func (st *Stream) Snapshot(max int) []int {
	rec := st.Rec
	n := len(rec)
	if n > max {
		n = max
	}
	out := make([]int, n)
	for i := 0; i < n; i++ {
		out[i] = rec[i].V
	}
	return out
}

func (st *Stream) record(kind string, n, v int) int {
	st.Draws++
	if v != 0 {
		st.NonZero++
	}
	if st.KeepRec {
		st.Rec = append(st.Rec, Decision{kind, n, v})
	}
	return v
}

func (st *Stream) fromReplay(n int) int {
	v := 0
	if st.pos < len(st.vals) {
		v = st.vals[st.pos]
		if v < 0 {
			v = -v
		}
		v %= n
	}
	st.pos++
	return v
}

// Choose returns a value in [0,n), uniform in search mode.
func (st *Stream) Choose(n int, kind string) int {
	if n <= 1 {
		return 0
	}
	if st.replay {
		return st.record(kind, n, st.fromReplay(n))
	}
	return st.record(kind, n, st.r.intn(n))
}

// Biased returns 0 with probability p0‰ and otherwise a uniform value in
// [1,n). Used for choices whose boring value should dominate (faults, delays,
// preemptions).
func (st *Stream) Biased(n int, p0 int, kind string) int {
	if n <= 1 {
		return 0
	}
	if st.replay {
		return st.record(kind, n, st.fromReplay(n))
	}
	if st.r.permille(p0) {
		return st.record(kind, n, 0)
	}
	return st.record(kind, n, 1+st.r.intn(n-1))
}

// pick lets the scheduler strategy compute the value itself in search mode.
func (st *Stream) pick(n int, kind string, f func(r *rng) int) int {
	if n <= 1 {
		return 0
	}
	if st.replay {
		return st.record(kind, n, st.fromReplay(n))
	}
	return st.record(kind, n, f(&st.r))
}
