// Package atomic is the drop-in shim for sync/atomic: the same operations,
// each preceded by a scheduling point.
package atomic

import (
	"simrt"
	std "sync/atomic"
	"unsafe"
)

type Value = std.Value

func SwapInt32(addr *int32, new int32) int32 { simrt.Yield(); return std.SwapInt32(addr, new) }
func SwapInt64(addr *int64, new int64) int64 { simrt.Yield(); return std.SwapInt64(addr, new) }
func SwapUint32(addr *uint32, new uint32) uint32 {
	simrt.Yield()
	return std.SwapUint32(addr, new)
}
func SwapUint64(addr *uint64, new uint64) uint64 {
	simrt.Yield()
	return std.SwapUint64(addr, new)
}
func SwapPointer(addr *unsafe.Pointer, new unsafe.Pointer) unsafe.Pointer {
	simrt.Yield()
	return std.SwapPointer(addr, new)
}
func CompareAndSwapInt32(addr *int32, old, new int32) bool {
	simrt.Yield()
	return std.CompareAndSwapInt32(addr, old, new)
}
func CompareAndSwapInt64(addr *int64, old, new int64) bool {
	simrt.Yield()
	return std.CompareAndSwapInt64(addr, old, new)
}
func CompareAndSwapUint32(addr *uint32, old, new uint32) bool {
	simrt.Yield()
	return std.CompareAndSwapUint32(addr, old, new)
}
func CompareAndSwapUint64(addr *uint64, old, new uint64) bool {
	simrt.Yield()
	return std.CompareAndSwapUint64(addr, old, new)
}
func CompareAndSwapPointer(addr *unsafe.Pointer, old, new unsafe.Pointer) bool {
	simrt.Yield()
	return std.CompareAndSwapPointer(addr, old, new)
}
func LoadInt32(addr *int32) int32         { simrt.Yield(); return std.LoadInt32(addr) }
func LoadInt64(addr *int64) int64         { simrt.Yield(); return std.LoadInt64(addr) }
func LoadUint32(addr *uint32) uint32      { simrt.Yield(); return std.LoadUint32(addr) }
func LoadUint64(addr *uint64) uint64      { simrt.Yield(); return std.LoadUint64(addr) }
func StoreInt32(addr *int32, v int32)     { simrt.Yield(); std.StoreInt32(addr, v) }
func StoreInt64(addr *int64, v int64)     { simrt.Yield(); std.StoreInt64(addr, v) }
func StoreUint32(addr *uint32, v uint32)  { simrt.Yield(); std.StoreUint32(addr, v) }
func StoreUint64(addr *uint64, v uint64)  { simrt.Yield(); std.StoreUint64(addr, v) }
func AddInt32(addr *int32, d int32) int32 { simrt.Yield(); return std.AddInt32(addr, d) }
func AddInt64(addr *int64, d int64) int64 { simrt.Yield(); return std.AddInt64(addr, d) }
func AddUint32(addr *uint32, d uint32) uint32 {
	simrt.Yield()
	return std.AddUint32(addr, d)
}
func AddUint64(addr *uint64, d uint64) uint64 {
	simrt.Yield()
	return std.AddUint64(addr, d)
}
