package simrt

import (
	"reflect"
	"sort"
	"unsafe"
)

// Canonical map iteration. Go starts map iteration at a random, unseedable
// position; instrumented code iterates over MapKeys(m) instead, which returns
// the keys in a canonical order (optionally rotated by a stream decision).
// Pointer-like keys are ordered by a registry number handed out at the
// (also instrumented) insert site, i.e. in deterministic first-insertion
// order; the registry pins the pointers so addresses are not reused within a
// run.

var keyReg = map[uintptr]uint64{}
var keyPin []unsafe.Pointer
var keySeq uint64
var curMapType string

func resetKeys() {
	keyReg = map[uintptr]uint64{}
	keyPin = nil
	keySeq = 0
}

func regPtr(p uintptr, pin unsafe.Pointer, lazy bool) uint64 {
	if id, ok := keyReg[p]; ok {
		return id
	}
	if lazy && S != nil {
		S.LazyKeys++
		if S.LazyWhere == nil {
			S.LazyWhere = map[string]int{}
		}
		S.LazyWhere[curMapType]++
	}
	keySeq++
	keyReg[p] = keySeq
	keyPin = append(keyPin, pin)
	return keySeq
}

func regValue(v reflect.Value, depth int) {
	if depth > 6 || !v.IsValid() {
		return
	}
	switch v.Kind() {
	case reflect.Ptr, reflect.Chan, reflect.Func, reflect.UnsafePointer, reflect.Map:
		if !v.IsNil() {
			regPtr(v.Pointer(), v.UnsafePointer(), false)
		}
	case reflect.Interface:
		if !v.IsNil() {
			regValue(v.Elem(), depth+1)
		}
	case reflect.Struct:
		for i := 0; i < v.NumField(); i++ {
			regValue(v.Field(i), depth+1)
		}
	case reflect.Array:
		for i := 0; i < v.Len(); i++ {
			regValue(v.Index(i), depth+1)
		}
	}
}

// RegKey records first-insertion order of pointer-like map keys.
func RegKey(k interface{}) {
	if S == nil {
		return
	}
	regValue(reflect.ValueOf(k), 0)
}

func c3(lt, gt bool) int {
	if lt {
		return -1
	}
	if gt {
		return 1
	}
	return 0
}

func cmpValue(a, b reflect.Value, depth int) int {
	if !a.IsValid() || !b.IsValid() {
		return c3(!a.IsValid() && b.IsValid(), a.IsValid() && !b.IsValid())
	}
	if a.Type() != b.Type() {
		as, bs := a.Type().String(), b.Type().String()
		if as == bs {
			as, bs = a.Type().PkgPath()+"."+as, b.Type().PkgPath()+"."+bs
		}
		return c3(as < bs, as > bs)
	}
	switch a.Kind() {
	case reflect.Bool:
		return c3(!a.Bool() && b.Bool(), a.Bool() && !b.Bool())
	case reflect.Int, reflect.Int8, reflect.Int16, reflect.Int32, reflect.Int64:
		return c3(a.Int() < b.Int(), a.Int() > b.Int())
	case reflect.Uint, reflect.Uint8, reflect.Uint16, reflect.Uint32, reflect.Uint64, reflect.Uintptr:
		return c3(a.Uint() < b.Uint(), a.Uint() > b.Uint())
	case reflect.Float32, reflect.Float64:
		return c3(a.Float() < b.Float(), a.Float() > b.Float())
	case reflect.String:
		return c3(a.String() < b.String(), a.String() > b.String())
	case reflect.Ptr, reflect.Chan, reflect.Func, reflect.UnsafePointer, reflect.Map:
		var ia, ib uint64
		if !a.IsNil() {
			ia = regPtr(a.Pointer(), a.UnsafePointer(), true)
		}
		if !b.IsNil() {
			ib = regPtr(b.Pointer(), b.UnsafePointer(), true)
		}
		return c3(ia < ib, ia > ib)
	case reflect.Interface:
		if a.IsNil() || b.IsNil() {
			return c3(a.IsNil() && !b.IsNil(), !a.IsNil() && b.IsNil())
		}
		if a.CanInterface() && b.CanInterface() {
			// type descriptors are ordered by name, not by address
			if ta, ok := a.Interface().(reflect.Type); ok {
				if tb, ok := b.Interface().(reflect.Type); ok {
					sa, sb := ta.PkgPath()+"|"+ta.String(), tb.PkgPath()+"|"+tb.String()
					if sa != sb {
						return c3(sa < sb, sa > sb)
					}
				}
			}
		}
		return cmpValue(a.Elem(), b.Elem(), depth+1)
	case reflect.Struct:
		for i := 0; i < a.NumField(); i++ {
			if c := cmpValue(a.Field(i), b.Field(i), depth+1); c != 0 {
				return c
			}
		}
	case reflect.Array:
		for i := 0; i < a.Len(); i++ {
			if c := cmpValue(a.Index(i), b.Index(i), depth+1); c != 0 {
				return c
			}
		}
	}
	return 0
}

// MapKeys returns the keys of m in canonical order (rotated by a stream
// decision when Options.RotateMaps is set and a simulation is active).
func MapKeys(m interface{}) []interface{} {
	v := reflect.ValueOf(m)
	if !v.IsValid() || v.Len() == 0 {
		return nil
	}
	keys := v.MapKeys()
	if len(keys) > 1 {
		curMapType = v.Type().String()
		sort.SliceStable(keys, func(i, j int) bool { return cmpValue(keys[i], keys[j], 0) < 0 })
		if s := S; s != nil && !s.killed && s.opts.RotateMaps {
			if off := s.St.Biased(len(keys), 700, "maporder"); off > 0 {
				keys = append(keys[off:len(keys):len(keys)], keys[:off]...)
			}
		}
	}
	out := make([]interface{}, len(keys))
	for i, k := range keys {
		out[i] = k.Interface()
	}
	return out
}
