#!/bin/bash
# usage: confirm_seed.sh <seeddir-with-patch.diff+demo_test.go> <prop> <pkgdir> <run-pattern> <name> [budget]
# Confirms a seeded defect in a scratch worktree (demo passes clean / fails patched, builds, baseline passes),
# then runs the property's quick check against it in /repo and stores everything under /verif/seeded/<name>/.
set -u
SD="$1"; PROP="$2"; PKG="$3"; PAT="$4"; NAME="$5"; B="${6:-40}"
export GOFLAGS=-mod=mod GOPROXY=off GOSUMDB=off GOTOOLCHAIN=local
CW=/tmp/cw-$NAME
git -C /repo worktree remove --force $CW 2>/dev/null
git -C /repo worktree add --detach $CW HEAD -q || exit 3
trap 'git -C /repo worktree remove --force '$CW' 2>/dev/null' EXIT
mkdir -p $CW/$PKG; cp "$SD/demo_test.go" $CW/$PKG/zz_seeded_demo_test.go
( cd $CW && go test ${DEMO_FLAGS:-} -count=1 -run "$PAT" ./$PKG/ >/tmp/cw-$NAME.clean.log 2>&1 ); CLEAN=$?
( cd $CW && git apply "$SD/patch.diff" ) || { echo "RESULT $NAME: patch does not apply to current HEAD"; exit 4; }
( cd $CW && go build ./... >/tmp/cw-$NAME.build.log 2>&1 ); BUILD=$?
( cd $CW && go test ${DEMO_FLAGS:-} -count=1 -run "$PAT" ./$PKG/ >/tmp/cw-$NAME.patched.log 2>&1 ); PATCHED=$?
rm -f $CW/$PKG/zz_seeded_demo_test.go
/verif/tools/baseline.py $CW >/tmp/cw-$NAME.base.log 2>&1; BASE=$?
echo "demo clean exit=$CLEAN (want 0), build=$BUILD (want 0), demo patched exit=$PATCHED (want !=0), baseline=$BASE (want 0)"
# the check runs against the patched scratch worktree (same as applying the patch to /repo, but /repo stays untouched)
cd /verif
OUT=$(VERIF_REPO=$CW VERIF_BUDGET=$B VERIF_WORKERS=${VERIF_WORKERS:-16} ./check "$PROP" quick 2>&1); RC=$?
echo "$OUT" | grep -v "^  violation" | cut -c1-300 | tail -6
echo "check exit=$RC"
KEYS=$(echo "$OUT" | grep "^  violation key=" | sed 's/^  violation key=\([^:]*\):.*/\1/' | sort -u | tr '\n' ' ')
mkdir -p /verif/seeded/$NAME
cp "$SD/patch.diff" /verif/seeded/$NAME/patch.diff
cp "$SD/demo_test.go" /verif/seeded/$NAME/demo_test.go
[ -f "$SD/README.md" ] && cp "$SD/README.md" /verif/seeded/$NAME/README.md
python3 - "$NAME" "$PROP" "$PKG" "$PAT" "$CLEAN" "$BUILD" "$PATCHED" "$BASE" "$RC" "$KEYS" "$B" <<'PY'
import json,sys,os
name,prop,pkg,pat,clean,build,patched,base,rc,keys,b=sys.argv[1:]
meta={"id":name,"breaks_property":prop,"demo":{"copy_into":pkg,"command":("go test %s -count=1 -run '%s' ./%s/"%(os.environ.get("DEMO_FLAGS",""),pat,pkg)).replace("  "," "),
  "exit_on_clean_tree":int(clean),"exit_with_patch":int(patched)},
 "builds":int(build)==0,"baseline_suite_passes_with_patch":int(base)==0,
 "check":{"command":"VERIF_BUDGET=%s ./check %s quick"%(b,prop),"exit":int(rc),"violation_keys":keys.split()},
 "detected":int(rc)==1}
p='/verif/seeded/%s/meta.json'%name
old={}
if os.path.exists(p):
    try: old=json.load(open(p))
    except Exception: pass
for k in ("needs_to_manifest","origin","notes"):
    if k in old: meta[k]=old[k]
json.dump(meta,open(p,'w'),indent=1)
print("RESULT %s: confirmed=%s detected=%s keys=%s" % (name, int(clean)==0 and int(build)==0 and int(patched)!=0 and int(base)==0, int(rc)==1, keys))
PY
