#!/usr/bin/env python3
"""Regenerates MANIFEST.json from checks.json (claimed properties) and the fixed not-applicable list."""
import json, os
V = os.path.dirname(os.path.dirname(os.path.abspath(__file__)))
checks = json.load(open(os.path.join(V, "checks.json")))
NA = {
 "C03": "pure function of two JSON values: no schedule, clock, I/O, fault or multi-party behaviour in the statement (DESIGN.md section 8); its consequence for live clients is exercised by C02's folding client",
 "C09": "pure function of introspection documents and a query: nothing for a simulator to schedule or fault (DESIGN.md section 8)",
 "C11": "pure function of (list, arguments, configuration); its only concurrency is a fork-join whose workers write disjoint indices, so no schedule can change the outcome (DESIGN.md section 8)",
 "C13": "pure codec round trip, quantified over inputs only (DESIGN.md section 8)",
 "C14": "pure function of type shapes and selection trees, quantified over inputs/configurations only (DESIGN.md section 8)",
 "C18": "decided entirely inside Parse/PrepareQuery before any resolver runs; pure function of the input (DESIGN.md section 8)",
 "C19": "pure function of query and variables; nothing in it depends on a schedule, clock or fault (DESIGN.md section 8)",
}
props = [json.loads(l)["id"] for l in open(os.path.join(V, "properties.jsonl"))]
m = {
 "version": 1,
 "setup_cmd": "./setup.sh",
 "hooks": {"guard": "verif", "enable": "go build -tags verif (the checks compile an instrumented scratch copy of /repo with -tags verif using go1.26.8)",
           "baseline_off_cmd": json.load(open("/root/.vp/BASELINE.json"))["cmd"],
           "source_commits": json.load(open(os.path.join(V, "hooks.json")))["source_commits"], "add_only": True},
 "engines": [{"name": "simrt+simify", "path": "/verif/simrt, /verif/tools/simify, /verif/harness", "serves_properties": sorted(checks),
              "kind_free_text": "deterministic simulation with fault injection: the current /repo tree is copied, mechanically instrumented (go/ast+go/types) so that every goroutine, lock, channel operation, select, timer, atomic and map iteration goes through a baton scheduler inside a testing/synctest bubble; one seeded decision stream decides schedule, workload and faults; oracles compare against small reference models; failures are shrunk and written as replay files"}],
 "checks": [],
 "not_applicable": [],
 "notes": "see DESIGN.md; known findings in known_findings.json; seeded breakages in seeded/",
}
for p in props:
    if p in checks:
        c = checks[p]
        m["checks"].append({
            "property_id": p,
            "quick_cmd": "./check %s quick" % p,
            "thorough_cmd": "./check %s thorough" % p,
            "evidence_file": "/verif/evidence/%s.json" % p,
            "replay_cmd_template": "./check %s --replay {path}" % p,
            "engine": "simrt+simify",
            "level_claimed": {"category": "exploration", "text": c["level_text"], "design_ref": c.get("design_ref", "DESIGN.md section 4")},
            "level_note": c["level_note"],
            "technique": "deterministic simulation with fault injection (seeded schedule/fault search over the real code, reference-model oracle, shrinking, replay)",
        })
    elif p in NA:
        m["not_applicable"].append({"property_id": p, "reason": NA[p]})
    else:
        m["not_applicable"].append({"property_id": p, "reason": "applicable and planned (DESIGN.md section 4) but its harness is not built yet; not claimed until it is"})
json.dump(m, open(os.path.join(V, "MANIFEST.json"), "w"), indent=1)
print("claimed:", [c["property_id"] for c in m["checks"]])
