#!/bin/bash
# Re-runs the quick check of every seeded defect under /verif/seeded against the current harness
# (each in its own scratch worktree of /repo with the patch applied; /repo itself is not touched).
# usage: tools/rerun_seeds.sh [budget-seconds] [id-glob]
export GOFLAGS=-mod=mod GOPROXY=off GOSUMDB=off GOTOOLCHAIN=local
B="${1:-30}"; GLOB="${2:-*}"
cd /verif
for d in seeded/$GLOB/; do
  id=$(basename $d)
  [ -f $d/patch.diff ] || continue
  if [ -n "${SKIP_UNTIL:-}" ] && [ "$id" \< "$SKIP_UNTIL" ]; then continue; fi
  prop=$(python3 -c "import json;m=json.load(open('$d/meta.json'));p=m.get('breaks_property') or m.get('property');print(p if isinstance(p,str) else p[0])")
  W=/var/tmp/seedwt-$id
  git -C /repo worktree remove --force $W 2>/dev/null
  git -C /repo worktree add --detach $W HEAD -q || { echo "SEED $id: worktree failed"; continue; }
  if ! git -C $W apply $PWD/$d/patch.diff 2>/dev/null; then
    echo "SEED $id ($prop): patch does not apply to HEAD"
  else
    OUT=$(VERIF_FIRST=1 VERIF_REPO=$W VERIF_BUDGET=$B VERIF_WORKERS=${VERIF_WORKERS:-8} ./check $prop quick 2>&1); RC=$?
    KEYS=$(echo "$OUT" | grep "^  violation key=" | sed 's/^  violation key=\([^:]*\):.*/\1/' | sort -u | head -4 | tr '\n' ' ')
    echo "SEED $id ($prop): exit=$RC detected=$([ $RC = 1 ] && echo yes || echo NO) $KEYS"
  fi
  git -C /repo worktree remove --force $W 2>/dev/null
  rm -rf /var/tmp/verif-alt-out/seedwt-$id
done
