#!/bin/sh
# Runs every claimed property's thorough tier, one after the other (for `vp run`).
cd "$(dirname "$0")/.."
# in a `vp run --with-repo` the repository snapshot is used, so that seeded patches applied to /repo meanwhile do not leak in
if [ -n "$VP_RUN_REPO" ]; then export VERIF_REPO="$VP_RUN_REPO"; export VERIF_OUT="$PWD"; fi
./setup.sh
PROPS="${VERIF_PROPS:-$(python3 -c "import json;print(' '.join(sorted(json.load(open('checks.json')))))")}"
for p in $PROPS; do
  echo "=== $p thorough seed=${VERIF_SEED:-1}"
  ./check $p thorough 2>&1 | grep -v "^  violation" | cut -c1-600 | tail -6
  echo "exit=$?"
done
