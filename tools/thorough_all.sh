#!/bin/sh
# Runs every claimed property's thorough tier, one after the other (for `vp run`).
cd "$(dirname "$0")/.."
./setup.sh
for p in $(python3 -c "import json;print(' '.join(sorted(json.load(open('checks.json')))))"); do
  echo "=== $p thorough seed=${VERIF_SEED:-1}"
  ./check $p thorough 2>&1 | grep -v "^  violation" | cut -c1-600 | tail -6
  echo "exit=$?"
done
