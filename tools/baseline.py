#!/usr/bin/env python3
"""usage: baseline.py <repo-dir>
Runs the repository's pinned test suite in <repo-dir> (default go toolchain, no build tags) and
reports whether every test of /root/.vp/BASELINE.json's stable_pass list passes. exit 0 = all pass."""
import json, subprocess, sys, os
d = sys.argv[1] if len(sys.argv) > 1 else "/repo"
want = set(json.load(open("/root/.vp/BASELINE.json"))["stable_pass"])
env = dict(os.environ, GOFLAGS="-mod=mod", GOPROXY="off", GOSUMDB="off", GOTOOLCHAIN="local")
p = subprocess.run(["go", "test", "-json", "-vet=off", "-count=1", "-timeout", "25m", "./..."], cwd=d, env=env, stdout=subprocess.PIPE, stderr=subprocess.DEVNULL)
passed = set()
for line in p.stdout.decode(errors="replace").splitlines():
    try:
        e = json.loads(line)
    except Exception:
        continue
    if e.get("Action") == "pass" and e.get("Test"):
        passed.add("%s::%s" % (e["Package"], e["Test"]))
missing = sorted(want - passed)
print("stable_pass=%d passed_of_those=%d" % (len(want), len(want) - len(missing)))
for m in missing[:40]:
    print("NOT PASSING:", m)
sys.exit(1 if missing else 0)
