// simify rewrites Go packages in place so that every scheduling-relevant
// construct goes through the simulator runtime (package simrt). It is run on a
// scratch copy of the thunder working tree (and of the harness sources) by
// every check, so the instrumentation is always derived from the current tree.
//
// usage: simify [-tests] [-report file] <moduleDir> <pkgpattern>...
//
// Anything it does not understand is an error (exit 2), never a silently
// un-instrumented site.
package main

import (
	"bytes"
	"encoding/json"
	"flag"
	"fmt"
	"go/ast"
	"go/format"
	"go/parser"
	"go/token"
	"go/types"
	"os"
	"path/filepath"
	"sort"
	"strconv"
	"strings"

	"golang.org/x/tools/go/ast/astutil"
	"golang.org/x/tools/go/packages"
)

var mapRaces bool
var stats = map[string]int{}
var perPkg = map[string]map[string]int{}

func count(pkg, k string) {
	stats[k]++
	if perPkg[pkg] == nil {
		perPkg[pkg] = map[string]int{}
	}
	perPkg[pkg][k]++
}

func fatal(format string, args ...interface{}) {
	fmt.Fprintf(os.Stderr, "simify: "+format+"\n", args...)
	os.Exit(2)
}

func main() {
	tests := flag.Bool("tests", false, "also rewrite _test.go files")
	report := flag.String("report", "", "write a JSON rewrite report here")
	flag.BoolVar(&mapRaces, "mapraces", false, "put a simrt.MapOp scheduling point in front of accesses to maps that several goroutines can reach")
	flag.Parse()
	if flag.NArg() < 2 {
		fatal("usage: simify [-tests] [-report f] <moduleDir> <patterns>...")
	}
	dir, err := filepath.Abs(flag.Arg(0))
	if err != nil {
		fatal("%v", err)
	}
	if r, err := filepath.EvalSymlinks(dir); err == nil {
		dir = r
	}
	cfg := &packages.Config{
		Mode: packages.NeedName | packages.NeedFiles | packages.NeedSyntax | packages.NeedTypes |
			packages.NeedTypesInfo | packages.NeedImports | packages.NeedDeps | packages.NeedCompiledGoFiles,
		Dir:        dir,
		Tests:      *tests,
		BuildFlags: []string{"-tags=verif"},
	}
	pkgs, err := packages.Load(cfg, flag.Args()[1:]...)
	if err != nil {
		fatal("load: %v", err)
	}
	bad := false
	for _, p := range pkgs {
		for _, e := range p.Errors {
			fmt.Fprintln(os.Stderr, "simify: load error:", e)
			bad = true
		}
	}
	if bad {
		os.Exit(2)
	}
	seen := map[string]bool{}
	files := 0
	for _, p := range pkgs {
		for i, f := range p.Syntax {
			if i >= len(p.CompiledGoFiles) {
				continue
			}
			name := p.CompiledGoFiles[i]
			if seen[name] || !strings.HasPrefix(name, dir+string(filepath.Separator)) {
				continue
			}
			seen[name] = true
			rw := &rewriter{pkg: p, fset: p.Fset, info: p.TypesInfo, file: f, pkgName: shortPkg(p.PkgPath), hoist: map[ast.Stmt]bool{}}
			rw.rewrite()
			if rw.err != nil {
				fatal("%s: %v", name, rw.err)
			}
			if !rw.changed {
				continue
			}
			var buf bytes.Buffer
			if err := format.Node(&buf, p.Fset, f); err != nil {
				fatal("format %s: %v", name, err)
			}
			if err := os.WriteFile(name, buf.Bytes(), 0644); err != nil {
				fatal("%v", err)
			}
			files++
		}
	}
	stats["files rewritten"] = files
	if *report != "" {
		b, _ := json.MarshalIndent(map[string]interface{}{"total": stats, "per_package": perPkg}, "", " ")
		if err := os.WriteFile(*report, b, 0644); err != nil {
			fatal("%v", err)
		}
	}
	keys := make([]string, 0, len(stats))
	for k := range stats {
		keys = append(keys, k)
	}
	sort.Strings(keys)
	var sb strings.Builder
	for _, k := range keys {
		fmt.Fprintf(&sb, " %s=%d", k, stats[k])
	}
	fmt.Println("simify:" + sb.String())
}

func shortPkg(path string) string {
	path = strings.TrimSuffix(path, "_test")
	if i := strings.Index(path, "thunder/"); i >= 0 {
		return path[i+len("thunder/"):]
	}
	return path
}

type rewriter struct {
	pkg     *packages.Package
	pkgName string
	fset    *token.FileSet
	info    *types.Info
	file    *ast.File
	changed bool
	needRT  bool
	err     error
	n       int
	goN     map[string]int
	hoist   map[ast.Stmt]bool // blocks we produced whose last statement must carry a label
	funcs   []string          // enclosing function names
	fns     []ast.Node        // enclosing FuncDecl / FuncLit nodes
}

func (r *rewriter) fail(pos token.Pos, format string, args ...interface{}) {
	if r.err == nil {
		r.err = fmt.Errorf("%s: %s", r.fset.Position(pos), fmt.Sprintf(format, args...))
	}
}

func (r *rewriter) tmp(prefix string) *ast.Ident {
	r.n++
	return ast.NewIdent(fmt.Sprintf("_sim%s%d", prefix, r.n))
}

func rt(name string) ast.Expr {
	return &ast.SelectorExpr{X: ast.NewIdent("simrt"), Sel: ast.NewIdent(name)}
}

func call(fn ast.Expr, args ...ast.Expr) *ast.CallExpr { return &ast.CallExpr{Fun: fn, Args: args} }

func strLit(s string) ast.Expr { return &ast.BasicLit{Kind: token.STRING, Value: strconv.Quote(s)} }

func blank() *ast.Ident { return ast.NewIdent("_") }

func (r *rewriter) mark(k string) {
	count(r.pkgName, k)
	r.changed = true
	r.needRT = true
}

func (r *rewriter) isPkgFunc(e ast.Expr, pkgPath, name string) bool {
	sel, ok := e.(*ast.SelectorExpr)
	if !ok {
		return false
	}
	obj := r.info.Uses[sel.Sel]
	if obj == nil || obj.Pkg() == nil {
		return false
	}
	_, isFn := obj.(*types.Func)
	return isFn && obj.Pkg().Path() == pkgPath && obj.Name() == name
}

func (r *rewriter) isChan(e ast.Expr) bool {
	t := r.info.TypeOf(e)
	if t == nil {
		return false
	}
	_, ok := t.Underlying().(*types.Chan)
	return ok
}

func (r *rewriter) isMap(e ast.Expr) bool {
	t := r.info.TypeOf(e)
	if t == nil {
		return false
	}
	_, ok := t.Underlying().(*types.Map)
	return ok
}

func isRecv(e ast.Expr) (*ast.UnaryExpr, bool) {
	for {
		p, ok := e.(*ast.ParenExpr)
		if !ok {
			break
		}
		e = p.X
	}
	u, ok := e.(*ast.UnaryExpr)
	if ok && u.Op == token.ARROW {
		return u, true
	}
	return nil, false
}

func (r *rewriter) curFunc() string {
	if len(r.funcs) == 0 {
		return "init"
	}
	return r.funcs[len(r.funcs)-1]
}

func funcDeclName(d *ast.FuncDecl) string {
	if d.Recv != nil && len(d.Recv.List) == 1 {
		t := d.Recv.List[0].Type
		star := ""
		if s, ok := t.(*ast.StarExpr); ok {
			t = s.X
			star = "*"
		}
		if ix, ok := t.(*ast.IndexExpr); ok {
			t = ix.X
		}
		if id, ok := t.(*ast.Ident); ok {
			return "(" + star + id.Name + ")." + d.Name.Name
		}
	}
	return d.Name.Name
}

func (r *rewriter) rewrite() {
	r.goN = map[string]int{}
	for _, imp := range r.file.Imports {
		path, _ := strconv.Unquote(imp.Path.Value)
		switch path {
		case "sync":
			imp.Path.Value = strconv.Quote("simrt/sync")
			if imp.Name == nil {
				imp.Name = ast.NewIdent("sync")
			}
			r.changed = true
			count(r.pkgName, "import sync")
		case "sync/atomic":
			imp.Path.Value = strconv.Quote("simrt/atomic")
			if imp.Name == nil {
				imp.Name = ast.NewIdent("atomic")
			}
			r.changed = true
			count(r.pkgName, "import sync/atomic")
		}
	}
	handledRecv := map[*ast.UnaryExpr]bool{}
	pre := func(c *astutil.Cursor) bool {
		switch n := c.Node().(type) {
		case *ast.FuncDecl:
			r.funcs = append(r.funcs, funcDeclName(n))
			r.fns = append(r.fns, n)
		case *ast.FuncLit:
			r.fns = append(r.fns, n)
		}
		return true
	}
	post := func(c *astutil.Cursor) bool {
		switch n := c.Node().(type) {
		case *ast.FuncDecl:
			r.funcs = r.funcs[:len(r.funcs)-1]
			r.fns = r.fns[:len(r.fns)-1]
		case *ast.FuncLit:
			r.fns = r.fns[:len(r.fns)-1]
		case *ast.IfStmt:
			if mapRaces && c.Index() >= 0 {
				for _, p := range r.mapProbes(n) {
					c.InsertBefore(p)
				}
			}
		case *ast.ReturnStmt:
			if mapRaces && c.Index() >= 0 {
				for _, p := range r.mapProbes(n) {
					c.InsertBefore(p)
				}
			}
		case *ast.GoStmt:
			c.Replace(r.goStmt(n))
		case *ast.SelectStmt:
			c.Replace(r.selectStmt(n, handledRecv))
		case *ast.LabeledStmt:
			if b, ok := n.Stmt.(*ast.BlockStmt); ok && r.hoist[b] {
				last := len(b.List) - 1
				inner := &ast.LabeledStmt{Label: n.Label, Colon: n.Colon, Stmt: b.List[last]}
				nb := &ast.BlockStmt{List: append(append([]ast.Stmt{}, b.List[:last]...), inner)}
				c.Replace(nb)
			}
		case *ast.ExprStmt:
			if u, ok := isRecv(n.X); ok && c.Name() != "Comm" {
				handledRecv[u] = true
				r.mark("recv stmt")
				c.Replace(&ast.ExprStmt{X: call(rt("ChanRecv"), u.X)})
			} else if mapRaces && c.Index() >= 0 {
				for _, p := range r.mapProbes(n) {
					c.InsertBefore(p)
				}
			}
		case *ast.SendStmt:
			if c.Name() != "Comm" {
				r.mark("send stmt")
				c.Replace(&ast.ExprStmt{X: call(rt("ChanSend"), n.Chan, n.Value)})
			}
		case *ast.RangeStmt:
			if r.isChan(n.X) {
				c.Replace(r.rangeChan(n))
			} else if r.isMap(n.X) {
				c.Replace(r.rangeMap(n))
			}
		case *ast.AssignStmt:
			if len(n.Rhs) == 1 && c.Name() != "Comm" {
				if u, ok := isRecv(n.Rhs[0]); ok {
					if c.Index() < 0 {
						r.fail(n.Pos(), "receive assignment outside a statement list")
						return true
					}
					handledRecv[u] = true
					r.recvAssign(c, n, u)
					return true
				}
			}
			if c.Index() >= 0 && len(n.Rhs) == 1 {
				if ce, ok := n.Rhs[0].(*ast.CallExpr); ok && r.isExternalBlocking(ce) {
					t := r.tmp("t")
					c.InsertBefore(&ast.AssignStmt{Lhs: []ast.Expr{t}, Tok: token.DEFINE, Rhs: []ast.Expr{call(rt("Block"), strLit("external"))}})
					c.InsertAfter(&ast.ExprStmt{X: call(rt("Unblock"), t)})
					r.mark("external blocking call")
				}
			}
			if mapRaces && c.Index() >= 0 {
				for _, p := range r.mapProbes(n) {
					c.InsertBefore(p)
				}
			}
			if c.Index() >= 0 {
				for _, p := range r.mapInsertReg(n.Lhs) {
					c.InsertBefore(p)
				}
			} else if len(r.mapInsertReg(n.Lhs)) > 0 {
				r.fail(n.Pos(), "pointer-keyed map insert outside a statement list")
			}
		case *ast.IncDecStmt:
			if mapRaces && c.Index() >= 0 {
				for _, p := range r.mapProbes(n) {
					c.InsertBefore(p)
				}
			}
			if c.Index() >= 0 {
				for _, p := range r.mapInsertReg([]ast.Expr{n.X}) {
					c.InsertBefore(p)
				}
			}
		case *ast.CallExpr:
			switch {
			case r.isPkgFunc(n.Fun, "time", "Sleep"):
				n.Fun = rt("Sleep")
				r.mark("time.Sleep")
			case r.isPkgFunc(n.Fun, "time", "AfterFunc"):
				n.Fun = rt("AfterFunc")
				n.Args = append([]ast.Expr{strLit(r.siteName("afterfunc"))}, n.Args...)
				r.mark("time.AfterFunc")
			default:
				r.sqlPoint(n)
			}
		}
		return true
	}
	astutil.Apply(r.file, pre, post)
	// anything left that would block in the Go runtime is an error
	ast.Inspect(r.file, func(n ast.Node) bool {
		switch x := n.(type) {
		case *ast.UnaryExpr:
			if x.Op == token.ARROW && !handledRecv[x] {
				r.fail(x.Pos(), "receive expression in a position simify does not rewrite")
			}
		case *ast.GoStmt:
			r.fail(x.Pos(), "go statement left un-instrumented")
		case *ast.SelectStmt:
			r.fail(x.Pos(), "select left un-instrumented")
		case *ast.SendStmt:
			r.fail(x.Pos(), "send left un-instrumented")
		}
		return true
	})
	if r.needRT {
		astutil.AddImport(r.fset, r.file, "simrt")
	}
	if r.changed {
		r.keepImports()
	}
}

func (r *rewriter) siteName(kind string) string {
	base := r.pkgName + "." + r.curFunc()
	r.goN[base+kind]++
	if kind == "go" {
		return fmt.Sprintf("%s#%d", base, r.goN[base+kind])
	}
	return fmt.Sprintf("%s#%s%d", base, kind, r.goN[base+kind])
}

func (r *rewriter) keepImports() {
	// if "time" was imported only for Sleep/AfterFunc keep a blank use
	for _, imp := range r.file.Imports {
		path, _ := strconv.Unquote(imp.Path.Value)
		if path == "time" && imp.Name == nil {
			r.file.Decls = append(r.file.Decls, &ast.GenDecl{Tok: token.VAR, Specs: []ast.Spec{&ast.ValueSpec{
				Names: []*ast.Ident{blank()}, Values: []ast.Expr{&ast.SelectorExpr{X: ast.NewIdent("time"), Sel: ast.NewIdent("Now")}}}}})
		}
	}
}

func (r *rewriter) isConst(e ast.Expr) bool {
	tv, ok := r.info.Types[e]
	return ok && (tv.Value != nil || tv.IsNil())
}

// go f(a, b) => { _f := f; _a := a; _b := b; simrt.Go("site", func(){ _f(_a,_b) }) }
func (r *rewriter) goStmt(g *ast.GoStmt) ast.Stmt {
	r.mark("go")
	var pre []ast.Stmt
	callExpr := g.Call
	fun := callExpr.Fun
	if _, isLit := fun.(*ast.FuncLit); !isLit {
		bind := true
		if id, ok := fun.(*ast.Ident); ok {
			if _, isFn := r.info.Uses[id].(*types.Func); isFn {
				bind = false
			}
			if _, isBuiltin := r.info.Uses[id].(*types.Builtin); isBuiltin {
				bind = false
			}
		}
		if sel, ok := fun.(*ast.SelectorExpr); ok {
			if id, ok := sel.X.(*ast.Ident); ok {
				if _, isPkg := r.info.Uses[id].(*types.PkgName); isPkg {
					bind = false
				}
			}
		}
		if tv, ok := r.info.Types[fun]; ok && tv.IsType() {
			bind = false
		}
		if bind {
			t := r.tmp("f")
			pre = append(pre, &ast.AssignStmt{Lhs: []ast.Expr{t}, Tok: token.DEFINE, Rhs: []ast.Expr{fun}})
			fun = t
		}
	}
	args := make([]ast.Expr, len(callExpr.Args))
	for i, a := range callExpr.Args {
		if r.isConst(a) {
			args[i] = a
			continue
		}
		t := r.tmp("a")
		pre = append(pre, &ast.AssignStmt{Lhs: []ast.Expr{t}, Tok: token.DEFINE, Rhs: []ast.Expr{a}})
		args[i] = t
	}
	inner := &ast.CallExpr{Fun: fun, Args: args, Ellipsis: callExpr.Ellipsis}
	lit := &ast.FuncLit{Type: &ast.FuncType{Params: &ast.FieldList{}}, Body: &ast.BlockStmt{List: []ast.Stmt{&ast.ExprStmt{X: inner}}}}
	pre = append(pre, &ast.ExprStmt{X: call(rt("Go"), strLit(r.siteName("go")), lit)})
	return &ast.BlockStmt{List: pre}
}

// typeExpr renders t as an expression valid in this file, adding imports as
// needed.
func (r *rewriter) typeExpr(pos token.Pos, t types.Type) ast.Expr {
	type missing struct{ name, path string }
	var miss []missing
	bad := false
	s := types.TypeString(t, func(p *types.Package) string {
		if p == r.pkg.Types || p.Path() == r.pkg.Types.Path() {
			return ""
		}
		for _, imp := range r.file.Imports {
			path, _ := strconv.Unquote(imp.Path.Value)
			if path == p.Path() || (path == "simrt/sync" && p.Path() == "simrt/sync") {
				if imp.Name != nil {
					if imp.Name.Name == "_" || imp.Name.Name == "." {
						bad = true
					}
					return imp.Name.Name
				}
				return p.Name()
			}
		}
		name := "_simimp_" + p.Name()
		miss = append(miss, missing{name, p.Path()})
		return name
	})
	if bad {
		r.fail(pos, "cannot name type %s", s)
		return ast.NewIdent("int")
	}
	for _, m := range miss {
		astutil.AddNamedImport(r.fset, r.file, m.name, m.path)
	}
	e, err := parser.ParseExpr(s)
	if err != nil {
		r.fail(pos, "cannot parse type %q: %v", s, err)
		return ast.NewIdent("int")
	}
	return e
}

// v := <-c  /  v, ok := <-c  /  v = <-c
func (r *rewriter) recvAssign(c *astutil.Cursor, n *ast.AssignStmt, u *ast.UnaryExpr) {
	r.mark("recv assign")
	elem := r.info.TypeOf(u.X).Underlying().(*types.Chan).Elem()
	typ := r.typeExpr(n.Pos(), elem)
	rv := r.tmp("rv")
	var okE ast.Expr = blank()
	okDefined := false
	if len(n.Lhs) == 2 {
		okE = n.Lhs[1]
	}
	tok := n.Tok
	if tok == token.DEFINE {
		// rv, ok := ChanRecv(c); v, _ := rv.(T)
		if id, isId := okE.(*ast.Ident); isId && id.Name != "_" {
			okDefined = true
		}
		c.InsertBefore(&ast.AssignStmt{Lhs: []ast.Expr{rv, okE}, Tok: token.DEFINE, Rhs: []ast.Expr{call(rt("ChanRecv"), u.X)}})
		_ = okDefined
		if id, isId := n.Lhs[0].(*ast.Ident); isId && id.Name == "_" {
			c.Replace(&ast.AssignStmt{Lhs: []ast.Expr{blank()}, Tok: token.ASSIGN, Rhs: []ast.Expr{rv}})
		} else {
			c.Replace(&ast.AssignStmt{Lhs: []ast.Expr{n.Lhs[0], blank()}, Tok: token.DEFINE, Rhs: []ast.Expr{&ast.TypeAssertExpr{X: rv, Type: typ}}})
		}
		return
	}
	okT := r.tmp("ok")
	c.InsertBefore(&ast.AssignStmt{Lhs: []ast.Expr{rv, okT}, Tok: token.DEFINE, Rhs: []ast.Expr{call(rt("ChanRecv"), u.X)}})
	tv := r.tmp("v")
	c.InsertBefore(&ast.AssignStmt{Lhs: []ast.Expr{tv, blank()}, Tok: token.DEFINE, Rhs: []ast.Expr{&ast.TypeAssertExpr{X: rv, Type: typ}}})
	lhs := []ast.Expr{n.Lhs[0]}
	rhs := []ast.Expr{tv}
	if len(n.Lhs) == 2 {
		lhs = append(lhs, n.Lhs[1])
		rhs = append(rhs, okT)
	} else {
		c.InsertBefore(&ast.AssignStmt{Lhs: []ast.Expr{blank()}, Tok: token.ASSIGN, Rhs: []ast.Expr{okT}})
	}
	c.Replace(&ast.AssignStmt{Lhs: lhs, Tok: token.ASSIGN, Rhs: rhs})
}

// for x := range ch { body } => for { rv, ok := ChanRecv(ch); if !ok { break }; x, _ := rv.(T); body }
func (r *rewriter) rangeChan(n *ast.RangeStmt) ast.Stmt {
	r.mark("range chan")
	elem := r.info.TypeOf(n.X).Underlying().(*types.Chan).Elem()
	rv, ok, ch := r.tmp("rv"), r.tmp("ok"), r.tmp("c")
	body := []ast.Stmt{
		&ast.AssignStmt{Lhs: []ast.Expr{rv, ok}, Tok: token.DEFINE, Rhs: []ast.Expr{call(rt("ChanRecv"), ch)}},
		&ast.IfStmt{Cond: &ast.UnaryExpr{Op: token.NOT, X: ok}, Body: &ast.BlockStmt{List: []ast.Stmt{&ast.BranchStmt{Tok: token.BREAK}}}},
		&ast.AssignStmt{Lhs: []ast.Expr{blank()}, Tok: token.ASSIGN, Rhs: []ast.Expr{rv}},
	}
	if n.Key != nil {
		if id, isId := n.Key.(*ast.Ident); !isId || id.Name != "_" {
			typ := r.typeExpr(n.Pos(), elem)
			if n.Tok == token.DEFINE {
				body = append(body, &ast.AssignStmt{Lhs: []ast.Expr{n.Key, blank()}, Tok: token.DEFINE, Rhs: []ast.Expr{&ast.TypeAssertExpr{X: rv, Type: typ}}},
					&ast.AssignStmt{Lhs: []ast.Expr{blank()}, Tok: token.ASSIGN, Rhs: []ast.Expr{n.Key}})
			} else {
				tv := r.tmp("v")
				body = append(body, &ast.AssignStmt{Lhs: []ast.Expr{tv, blank()}, Tok: token.DEFINE, Rhs: []ast.Expr{&ast.TypeAssertExpr{X: rv, Type: typ}}},
					&ast.AssignStmt{Lhs: []ast.Expr{n.Key}, Tok: token.ASSIGN, Rhs: []ast.Expr{tv}})
			}
		}
	}
	body = append(body, n.Body.List...)
	b := &ast.BlockStmt{List: []ast.Stmt{
		&ast.AssignStmt{Lhs: []ast.Expr{ch}, Tok: token.DEFINE, Rhs: []ast.Expr{n.X}},
		&ast.ForStmt{Body: &ast.BlockStmt{List: body}},
	}}
	r.hoist[b] = true
	return b
}

// select => { i, rv, ok := simrt.Select(hasDefault, cases...); switch i { case 0: ...; case -1: default body } }
func (r *rewriter) selectStmt(s *ast.SelectStmt, handled map[*ast.UnaryExpr]bool) ast.Stmt {
	r.mark("select")
	idx, rv, okv := r.tmp("i"), r.tmp("rv"), r.tmp("ok")
	var cases []ast.Expr
	var clauses []ast.Stmt
	hasDefault := false
	k := 0
	for _, st := range s.Body.List {
		cc := st.(*ast.CommClause)
		if cc.Comm == nil {
			hasDefault = true
			clauses = append(clauses, &ast.CaseClause{List: []ast.Expr{&ast.UnaryExpr{Op: token.SUB, X: &ast.BasicLit{Kind: token.INT, Value: "1"}}}, Body: cc.Body})
			continue
		}
		var body []ast.Stmt
		switch comm := cc.Comm.(type) {
		case *ast.SendStmt:
			cases = append(cases, call(rt("Send"), comm.Chan, comm.Value))
		case *ast.ExprStmt:
			u, ok := isRecv(comm.X)
			if !ok {
				r.fail(comm.Pos(), "unexpected select comm")
				return s
			}
			handled[u] = true
			cases = append(cases, call(rt("Recv"), u.X))
		case *ast.AssignStmt:
			u, ok := isRecv(comm.Rhs[0])
			if !ok {
				r.fail(comm.Pos(), "unexpected select comm")
				return s
			}
			handled[u] = true
			cases = append(cases, call(rt("Recv"), u.X))
			elem := r.info.TypeOf(u.X).Underlying().(*types.Chan).Elem()
			typExpr := r.typeExpr(comm.Pos(), elem)
			tmpv := r.tmp("v")
			body = append(body, &ast.AssignStmt{Lhs: []ast.Expr{tmpv, blank()}, Tok: token.DEFINE, Rhs: []ast.Expr{&ast.TypeAssertExpr{X: rv, Type: typExpr}}})
			rhs := []ast.Expr{tmpv}
			if len(comm.Lhs) == 2 {
				rhs = append(rhs, okv)
			}
			body = append(body, &ast.AssignStmt{Lhs: comm.Lhs, Tok: comm.Tok, Rhs: rhs})
			if comm.Tok == token.DEFINE {
				for _, l := range comm.Lhs {
					if id, ok := l.(*ast.Ident); ok && id.Name != "_" {
						body = append(body, &ast.AssignStmt{Lhs: []ast.Expr{blank()}, Tok: token.ASSIGN, Rhs: []ast.Expr{id}})
					}
				}
			}
		default:
			r.fail(cc.Pos(), "unexpected select comm")
			return s
		}
		body = append(body, cc.Body...)
		clauses = append(clauses, &ast.CaseClause{List: []ast.Expr{&ast.BasicLit{Kind: token.INT, Value: strconv.Itoa(k)}}, Body: body})
		k++
	}
	clauses = append(clauses, &ast.CaseClause{List: nil, Body: []ast.Stmt{&ast.ExprStmt{X: call(ast.NewIdent("panic"), strLit("simrt: unreachable select index"))}}})
	hd := "false"
	if hasDefault {
		hd = "true"
	}
	args := append([]ast.Expr{ast.NewIdent(hd)}, cases...)
	b := &ast.BlockStmt{List: []ast.Stmt{
		&ast.AssignStmt{Lhs: []ast.Expr{idx, rv, okv}, Tok: token.DEFINE, Rhs: []ast.Expr{call(rt("Select"), args...)}},
		&ast.AssignStmt{Lhs: []ast.Expr{blank(), blank()}, Tok: token.ASSIGN, Rhs: []ast.Expr{rv, okv}},
		&ast.SwitchStmt{Tag: idx, Body: &ast.BlockStmt{List: clauses}},
	}}
	r.hoist[b] = true
	return b
}

func hasPointers(t types.Type, depth int) bool {
	if depth > 6 {
		return true
	}
	switch u := t.Underlying().(type) {
	case *types.Basic:
		return u.Kind() == types.UnsafePointer
	case *types.Pointer, *types.Interface, *types.Chan, *types.Signature, *types.Map:
		return true
	case *types.Struct:
		for i := 0; i < u.NumFields(); i++ {
			if hasPointers(u.Field(i).Type(), depth+1) {
				return true
			}
		}
		return false
	case *types.Array:
		return hasPointers(u.Elem(), depth+1)
	}
	return true
}

func hasCall(e ast.Expr) bool {
	found := false
	ast.Inspect(e, func(n ast.Node) bool {
		if _, ok := n.(*ast.CallExpr); ok {
			found = true
		}
		return !found
	})
	return found
}

// m[k] = v  =>  simrt.RegKey(k); m[k] = v   (only for key types containing pointers)
func (r *rewriter) mapInsertReg(lhs []ast.Expr) []ast.Stmt {
	var pre []ast.Stmt
	for _, l := range lhs {
		ix, ok := l.(*ast.IndexExpr)
		if !ok || !r.isMap(ix.X) {
			continue
		}
		mt := r.info.TypeOf(ix.X).Underlying().(*types.Map)
		if !hasPointers(mt.Key(), 0) {
			continue
		}
		if hasCall(ix.Index) {
			tv, ok := r.info.Types[ix.Index]
			if ok && tv.IsValue() {
				// conversions and pure constructors are common (reflect.TypeOf(x)); evaluating twice is not safe in general
				count(r.pkgName, "map insert with call key (unregistered)")
				continue
			}
		}
		r.mark("map insert reg")
		pre = append(pre, &ast.ExprStmt{X: call(rt("RegKey"), ix.Index)})
	}
	return pre
}

func (r *rewriter) rangeMap(n *ast.RangeStmt) ast.Stmt {
	mt := r.info.TypeOf(n.X).Underlying().(*types.Map)
	kt := r.typeExpr(n.Pos(), mt.Key())
	r.mark("map range")
	raw, okv, mv := r.tmp("k"), r.tmp("ok"), r.tmp("m")
	var key ast.Expr
	tok := n.Tok
	if tok != token.ASSIGN {
		tok = token.DEFINE
	}
	var body []ast.Stmt
	keyIsBlank := n.Key == nil
	if id, ok := n.Key.(*ast.Ident); ok && id.Name == "_" {
		keyIsBlank = true
	}
	if keyIsBlank {
		key = r.tmp("kk")
		body = append(body, &ast.AssignStmt{Lhs: []ast.Expr{key, blank()}, Tok: token.DEFINE, Rhs: []ast.Expr{&ast.TypeAssertExpr{X: raw, Type: kt}}})
	} else {
		key = n.Key
		if tok == token.DEFINE {
			body = append(body, &ast.AssignStmt{Lhs: []ast.Expr{key, blank()}, Tok: token.DEFINE, Rhs: []ast.Expr{&ast.TypeAssertExpr{X: raw, Type: kt}}})
			body = append(body, &ast.AssignStmt{Lhs: []ast.Expr{blank()}, Tok: token.ASSIGN, Rhs: []ast.Expr{key}})
		} else {
			body = append(body, &ast.AssignStmt{Lhs: []ast.Expr{key, blank()}, Tok: token.ASSIGN, Rhs: []ast.Expr{&ast.TypeAssertExpr{X: raw, Type: kt}}})
		}
	}
	valIsBlank := n.Value == nil
	if id, ok := n.Value.(*ast.Ident); ok && id.Name == "_" {
		valIsBlank = true
	}
	if valIsBlank {
		body = append(body, &ast.AssignStmt{Lhs: []ast.Expr{blank(), okv}, Tok: token.DEFINE, Rhs: []ast.Expr{&ast.IndexExpr{X: mv, Index: key}}})
	} else if tok == token.DEFINE {
		body = append(body, &ast.AssignStmt{Lhs: []ast.Expr{n.Value, okv}, Tok: token.DEFINE, Rhs: []ast.Expr{&ast.IndexExpr{X: mv, Index: key}}})
		body = append(body, &ast.AssignStmt{Lhs: []ast.Expr{blank()}, Tok: token.ASSIGN, Rhs: []ast.Expr{n.Value}})
	} else {
		body = append(body, &ast.DeclStmt{Decl: &ast.GenDecl{Tok: token.VAR, Specs: []ast.Spec{&ast.ValueSpec{Names: []*ast.Ident{okv}, Type: ast.NewIdent("bool")}}}})
		body = append(body, &ast.AssignStmt{Lhs: []ast.Expr{n.Value, okv}, Tok: token.ASSIGN, Rhs: []ast.Expr{&ast.IndexExpr{X: mv, Index: key}}})
	}
	body = append(body, &ast.IfStmt{Cond: &ast.UnaryExpr{Op: token.NOT, X: okv}, Body: &ast.BlockStmt{List: []ast.Stmt{&ast.BranchStmt{Tok: token.CONTINUE}}}})
	body = append(body, n.Body.List...)
	if mapRaces && !r.privateMap(n.X) {
		// every step of the iteration reads the map again
		r.mark("map access probe")
		body = append([]ast.Stmt{&ast.ExprStmt{X: call(rt("MapOp"), mv, ast.NewIdent("false"), strLit(r.probeSite(n.X)))}}, body...)
	}
	loop := &ast.RangeStmt{Key: blank(), Value: raw, Tok: token.DEFINE, X: call(rt("MapKeys"), mv), Body: &ast.BlockStmt{List: body}}
	b := &ast.BlockStmt{List: []ast.Stmt{
		&ast.AssignStmt{Lhs: []ast.Expr{mv}, Tok: token.DEFINE, Rhs: []ast.Expr{n.X}},
	}}
	if mapRaces && !r.privateMap(n.X) {
		r.mark("map access probe")
		b.List = append(b.List, &ast.ExprStmt{X: call(rt("MapOp"), mv, ast.NewIdent("false"), strLit(r.probeSite(n.X)))})
	}
	b.List = append(b.List, loop)
	r.hoist[b] = true
	return b
}

var externalBlocking = map[string]bool{
	"(*github.com/siddontang/go-mysql/replication.BinlogStreamer).GetEvent": true,
}

func (r *rewriter) isExternalBlocking(ce *ast.CallExpr) bool {
	sel, ok := ce.Fun.(*ast.SelectorExpr)
	if !ok {
		return false
	}
	if s := r.info.Selections[sel]; s != nil {
		if fn, ok := s.Obj().(*types.Func); ok {
			return externalBlocking[fn.FullName()]
		}
	}
	return false
}

var sqlRecv = map[string]bool{
	"*database/sql.DB":   true,
	"*database/sql.Tx":   true,
	"*database/sql.Rows": true,
	"*database/sql.Row":  true,
	"github.com/samsarahq/thunder/sqlgen.QueryExecer": true,
}

var sqlNames = map[string]bool{
	"QueryContext": true, "ExecContext": true, "QueryRowContext": true, "BeginTx": true, "PrepareContext": true,
	"Query": true, "Exec": true, "QueryRow": true, "Begin": true, "Commit": true, "Rollback": true,
	// fetching and decoding a row: the driver may wait for the network
	"Next": true, "Scan": true,
}

// A scheduling point before every statement sent to the database:
// x.QueryContext(ctx, ...) => x.QueryContext(simrt.IOCtx(ctx), ...);
// tx.Commit() => simrt.IOTx(tx).Commit().
func (r *rewriter) sqlPoint(ce *ast.CallExpr) {
	sel, ok := ce.Fun.(*ast.SelectorExpr)
	if !ok || !sqlNames[sel.Sel.Name] {
		return
	}
	s := r.info.Selections[sel]
	if s == nil || s.Kind() != types.MethodVal {
		return
	}
	recv := types.TypeString(s.Recv(), nil)
	if !sqlRecv[recv] {
		return
	}
	name := sel.Sel.Name
	if strings.HasSuffix(name, "Context") || name == "BeginTx" {
		if len(ce.Args) == 0 {
			return
		}
		ce.Args[0] = call(rt("IOCtx"), ce.Args[0])
		r.mark("sql point")
		return
	}
	switch recv {
	case "*database/sql.DB":
		sel.X = call(rt("IODB"), sel.X)
	case "*database/sql.Tx":
		sel.X = call(rt("IOTx"), sel.X)
	case "*database/sql.Rows":
		sel.X = call(rt("IORows"), sel.X)
	case "*database/sql.Row":
		sel.X = call(rt("IORow"), sel.X)
	default:
		r.fail(ce.Pos(), "database/sql call %s on %s is not instrumented", name, recv)
		return
	}
	r.mark("sql point")
}

// ---- shared-map access probes (-mapraces) ----

func (r *rewriter) exprText(e ast.Expr) string {
	var buf bytes.Buffer
	if err := format.Node(&buf, r.fset, e); err != nil {
		return "?"
	}
	return strings.Join(strings.Fields(buf.String()), " ")
}

func (r *rewriter) probeSite(m ast.Expr) string {
	return r.pkgName + "." + r.curFunc() + ": " + r.exprText(m)
}

// privateMap: m is a plain local variable of the innermost enclosing function
// (not a parameter, not captured from an outer function, not package level):
// only this invocation can reach it unless it was handed out, which the
// probes then see at the place it was handed to.
func (r *rewriter) privateMap(m ast.Expr) bool {
	for {
		p, ok := m.(*ast.ParenExpr)
		if !ok {
			break
		}
		m = p.X
	}
	id, ok := m.(*ast.Ident)
	if !ok {
		return false
	}
	v, ok := r.info.Uses[id].(*types.Var)
	if !ok || v.IsField() || len(r.fns) == 0 {
		return false
	}
	fn := r.fns[len(r.fns)-1]
	var body *ast.BlockStmt
	switch f := fn.(type) {
	case *ast.FuncDecl:
		body = f.Body
	case *ast.FuncLit:
		body = f.Body
	}
	if body == nil || v.Pos() < body.Pos() || v.Pos() >= body.End() {
		return false
	}
	// a local variable can still be another name for a shared map: it is only
	// private if everything ever assigned to it is a fresh map - and if no
	// function literal inside this function uses it (a goroutine started here
	// may). Values of basic types cannot be another name for anything.
	aliasable := true
	switch v.Type().Underlying().(type) {
	case *types.Basic, *types.Struct, *types.Array:
		aliasable = false
	}
	fresh := true
	isFresh := func(e ast.Expr) bool {
		switch x := e.(type) {
		case *ast.CompositeLit:
			return true
		case *ast.CallExpr:
			if fid, ok := x.Fun.(*ast.Ident); ok {
				if b, isB := r.info.Uses[fid].(*types.Builtin); isB && b.Name() == "make" {
					return true
				}
				// v = append(v, ...) keeps v what it was
				if b, isB := r.info.Uses[fid].(*types.Builtin); isB && b.Name() == "append" && len(x.Args) > 0 {
					if aid, ok := x.Args[0].(*ast.Ident); ok && r.info.Uses[aid] == v {
						return true
					}
				}
			}
		case *ast.Ident:
			return x.Name == "nil"
		case *ast.SliceExpr:
			// v = v[:n] keeps v what it was
			if aid, ok := x.X.(*ast.Ident); ok && r.info.Uses[aid] == v {
				return true
			}
		}
		return !aliasable
	}
	ast.Inspect(body, func(n ast.Node) bool {
		switch x := n.(type) {
		case *ast.AssignStmt:
			for i, l := range x.Lhs {
				lid, ok := l.(*ast.Ident)
				if !ok || (r.info.Defs[lid] != v && r.info.Uses[lid] != v) {
					continue
				}
				if len(x.Rhs) != len(x.Lhs) || !isFresh(x.Rhs[i]) {
					fresh = false
				}
			}
		case *ast.ValueSpec:
			for i, name := range x.Names {
				if r.info.Defs[name] != v {
					continue
				}
				if len(x.Values) > 0 && (len(x.Values) != len(x.Names) || !isFresh(x.Values[i])) {
					fresh = false
				}
			}
		case *ast.RangeStmt:
			for _, e := range []ast.Expr{x.Key, x.Value} {
				if lid, ok := e.(*ast.Ident); ok && (r.info.Defs[lid] == v || r.info.Uses[lid] == v) {
					fresh = false
				}
			}
		case *ast.UnaryExpr:
			// &m handed out
			if lid, ok := x.X.(*ast.Ident); ok && x.Op == token.AND && r.info.Uses[lid] == v {
				fresh = false
			}
		case *ast.FuncLit:
			ast.Inspect(x.Body, func(m ast.Node) bool {
				if id, ok := m.(*ast.Ident); ok && r.info.Uses[id] == v {
					fresh = false
				}
				return fresh
			})
		}
		return fresh
	})
	return fresh
}

// plainExpr: evaluating e twice is harmless and cannot synchronise with
// another goroutine: no call (conversions and the builtins len, cap, append, make, new, copy excepted), no function
// literal, no receive, no && or || (an operand that is only evaluated on one
// side must not be evaluated by the probe).
func (r *rewriter) plainExpr(e ast.Node) bool {
	ok := true
	ast.Inspect(e, func(n ast.Node) bool {
		switch x := n.(type) {
		case *ast.CallExpr:
			if tv, found := r.info.Types[x.Fun]; found && tv.IsType() {
				return true
			}
			if id, isID := x.Fun.(*ast.Ident); isID {
				if b, isB := r.info.Uses[id].(*types.Builtin); isB {
					switch b.Name() {
					case "len", "cap", "append", "make", "new", "copy":
						return true
					}
				}
			}
			ok = false
		case *ast.FuncLit:
			ok = false
		case *ast.UnaryExpr:
			if x.Op == token.ARROW {
				ok = false
			}
		case *ast.BinaryExpr:
			if x.Op == token.LAND || x.Op == token.LOR {
				ok = false
			}
		}
		return ok
	})
	return ok
}

type mapAccess struct {
	m     ast.Expr
	write bool
}

// mapReads collects the map index reads (and len(m)) inside e.
func (r *rewriter) mapReads(e ast.Node, out *[]mapAccess) {
	if e == nil {
		return
	}
	ast.Inspect(e, func(n ast.Node) bool {
		switch x := n.(type) {
		case *ast.IndexExpr:
			if r.isMap(x.X) {
				*out = append(*out, mapAccess{x.X, false})
			}
		case *ast.CallExpr:
			if id, isID := x.Fun.(*ast.Ident); isID && len(x.Args) == 1 {
				if b, isB := r.info.Uses[id].(*types.Builtin); isB && b.Name() == "len" && r.isMap(x.Args[0]) {
					*out = append(*out, mapAccess{x.Args[0], false})
				}
			}
		}
		return true
	})
}

// mapProbes returns the simrt.MapOp statements to put in front of s: one per
// access of s to a map that is not private to the function, provided s does
// nothing but evaluate plain expressions (then the accesses follow the probe
// with no synchronisation in between).
func (r *rewriter) mapProbes(s ast.Stmt) []ast.Stmt {
	var acc []mapAccess
	switch n := s.(type) {
	case *ast.AssignStmt:
		if up := r.updateProbe(n); up != nil {
			return up
		}
		if !r.plainExpr(n) {
			r.skippedProbe(n)
			return nil
		}
		for _, l := range n.Lhs {
			if ix, ok := l.(*ast.IndexExpr); ok && r.isMap(ix.X) {
				acc = append(acc, mapAccess{ix.X, true})
				r.mapReads(ix.X, &acc)
				r.mapReads(ix.Index, &acc)
			} else {
				r.mapReads(l, &acc)
			}
		}
		for _, e := range n.Rhs {
			r.mapReads(e, &acc)
		}
	case *ast.IncDecStmt:
		if !r.plainExpr(n) {
			r.skippedProbe(n)
			return nil
		}
		if ix, ok := n.X.(*ast.IndexExpr); ok && r.isMap(ix.X) {
			acc = append(acc, mapAccess{ix.X, true})
		} else {
			if up := r.varProbe(n.X); up != nil {
				return []ast.Stmt{up}
			}
			r.mapReads(n.X, &acc)
		}
	case *ast.ExprStmt:
		ce, ok := n.X.(*ast.CallExpr)
		if !ok {
			return nil
		}
		id, ok := ce.Fun.(*ast.Ident)
		if !ok || len(ce.Args) != 2 {
			return nil
		}
		if b, isB := r.info.Uses[id].(*types.Builtin); !isB || b.Name() != "delete" {
			return nil
		}
		if !r.plainExpr(ce.Args[0]) || !r.plainExpr(ce.Args[1]) {
			r.skippedProbe(n)
			return nil
		}
		acc = append(acc, mapAccess{ce.Args[0], true})
	case *ast.ReturnStmt:
		if !r.plainExpr(n) {
			r.skippedProbe(n)
			return nil
		}
		for _, e := range n.Results {
			r.mapReads(e, &acc)
		}
	case *ast.IfStmt:
		// the init statement and the condition run first; the probes of an
		// init statement that is an assignment are placed here because it is
		// not in a statement list itself
		if n.Init != nil {
			if !r.plainExpr(n.Init) {
				r.skippedProbe(n.Init)
				return nil
			}
			switch i := n.Init.(type) {
			case *ast.AssignStmt:
				for _, l := range i.Lhs {
					if ix, ok := l.(*ast.IndexExpr); ok && r.isMap(ix.X) {
						acc = append(acc, mapAccess{ix.X, true})
					}
				}
				for _, e := range i.Rhs {
					r.mapReads(e, &acc)
				}
			default:
				return nil
			}
		}
		if r.plainExpr(n.Cond) {
			r.mapReads(n.Cond, &acc)
		} else {
			r.skippedProbe(n.Cond)
		}
	}
	var out []ast.Stmt
	seen := map[string]bool{}
	for _, a := range acc {
		if r.privateMap(a.m) {
			continue
		}
		k := fmt.Sprint(a.write) + r.exprText(a.m)
		if seen[k] {
			continue
		}
		seen[k] = true
		r.mark("map access probe")
		out = append(out, &ast.ExprStmt{X: call(rt("MapOp"), a.m, ast.NewIdent(fmt.Sprint(a.write)), strLit(r.probeSite(a.m)))})
	}
	return out
}

// skippedProbe counts statements with a map access that get no probe.
func (r *rewriter) skippedProbe(n ast.Node) {
	has := false
	ast.Inspect(n, func(x ast.Node) bool {
		if ix, ok := x.(*ast.IndexExpr); ok && r.isMap(ix.X) && !r.privateMap(ix.X) {
			has = true
		}
		return !has
	})
	if has {
		count(r.pkgName, "map access without probe (statement with calls)")
	}
}

// varProbe returns simrt.VarOp(&x, site) for an in-place update of x, if x is
// addressable, not a plain local variable of the innermost function, and a
// plain expression without map elements (those are not addressable and have
// their own probe).
func (r *rewriter) varProbe(x ast.Expr) ast.Stmt {
	if !r.plainExpr(x) || r.privateMap(x) {
		return nil
	}
	if tv, ok := r.info.Types[x]; !ok || !tv.Addressable() {
		return nil
	}
	if id, ok := x.(*ast.Ident); ok && id.Name == "_" {
		return nil
	}
	hasMap := false
	ast.Inspect(x, func(n ast.Node) bool {
		if ix, ok := n.(*ast.IndexExpr); ok && r.isMap(ix.X) {
			hasMap = true
		}
		return !hasMap
	})
	if hasMap {
		return nil
	}
	r.mark("variable update probe")
	return &ast.ExprStmt{X: call(rt("VarOp"), &ast.UnaryExpr{Op: token.AND, X: x}, strLit(r.probeSite(x)))}
}

// updateProbe recognises x op= y and x = append(x, ...) with plain operands.
func (r *rewriter) updateProbe(n *ast.AssignStmt) []ast.Stmt {
	if len(n.Lhs) != 1 || len(n.Rhs) != 1 {
		return nil
	}
	x := n.Lhs[0]
	switch n.Tok {
	case token.ASSIGN:
		ce, ok := n.Rhs[0].(*ast.CallExpr)
		if !ok || len(ce.Args) < 1 {
			return nil
		}
		id, ok := ce.Fun.(*ast.Ident)
		if !ok {
			return nil
		}
		if b, isB := r.info.Uses[id].(*types.Builtin); !isB || b.Name() != "append" {
			return nil
		}
		if r.exprText(ce.Args[0]) != r.exprText(x) || !r.plainExpr(x) {
			return nil
		}
		allPlain := true
		for _, a := range ce.Args[1:] {
			if !r.plainExpr(a) {
				allPlain = false
			}
		}
		if !allPlain {
			for _, a := range ce.Args[1:] {
				bad := false
				ast.Inspect(a, func(n ast.Node) bool {
					switch u := n.(type) {
					case *ast.UnaryExpr:
						if u.Op == token.ARROW {
							bad = true
						}
					case *ast.FuncLit:
						bad = true
					}
					return !bad
				})
				if bad {
					return nil
				}
			}
			// x = append(x, f(y)) => _a := f(y); probe; x = append(x, _a): the
			// calls run first (as they may anyway: the order between a call and
			// the read of a variable in one expression is not specified), then
			// nothing but the update follows the probe
			probe := r.varProbe(x)
			if probe == nil {
				return nil
			}
			var pre []ast.Stmt
			for i, a := range ce.Args[1:] {
				if r.isConst(a) {
					continue
				}
				t := r.tmp("a")
				pre = append(pre, &ast.AssignStmt{Lhs: []ast.Expr{t}, Tok: token.DEFINE, Rhs: []ast.Expr{a}})
				ce.Args[i+1] = t
			}
			return append(pre, probe)
		}
	case token.DEFINE:
		return nil
	default:
		// x += y and the other assignment operators
		if !r.plainExpr(n.Rhs[0]) {
			return nil
		}
	}
	if p := r.varProbe(x); p != nil {
		return []ast.Stmt{p}
	}
	return nil
}
