#!/bin/sh
# usage: tools/trymut.sh <patch.diff> <prop> [budget-seconds]
# applies the patch to /repo, runs the quick check for prop, reverts the patch.
P="$1"; PROP="$2"; B="${3:-40}"
git -C /repo apply "$P" || { echo "patch does not apply"; exit 3; }
trap 'git -C /repo checkout -- . ; git -C /repo clean -fdq' EXIT
cd /verif
VERIF_BUDGET=$B ./check "$PROP" quick 2>&1 | grep -v "^  violation" | cut -c1-400 | tail -8
echo "exit=$?"
