package h6

import (
	"context"
	"database/sql"
	"fmt"
	"strings"
	"time"

	"github.com/samsarahq/thunder/batch"
	"github.com/samsarahq/thunder/sqlgen"
	"simrt"
	"simrt/runner"
)

// Item has a composite primary key that contains the shard column, so that
// UpdateRow / DeleteRow can comply with a shard limit at all.
type Item struct {
	OrgId  int64  `sql:",primary"`
	Region string `sql:",primary"`
	Id     int64  `sql:",primary"`
	Name   string
	Qty    int64
}

var itemCols = []string{"org_id", "region", "id", "name", "qty"}

// callInfo travels in the context; database/sql hands the context to the
// driver, which attributes every statement to the call that issued it.
type callInfo struct {
	idx       int
	org       int64  // the limit value of the handle used
	verdict   string // "comply", "violate", "either" (right value, other Go type), "unlimited"
	op        string
	batched   bool
	stmts     int
	multiStmt bool // InsertRows / UpsertRows: earlier chunks may legitimately reach the database
}

func limitsBody(c *runner.Ctx) {
	d := newMDB()
	d.seqFn = simrt.Seq
	// tenant ids may be beyond 32 bits: a narrower integer that equals the
	// truncated id is another tenant
	bigOrgs := c.Choose(3, "tenant-ids-beyond-32-bits") == 1
	orgID := func(k int64) int64 {
		if bigOrgs {
			return 1<<32 + k
		}
		return k
	}
	t := d.addTable("items", itemCols, []string{"org_id", "region", "id"})
	for i := 0; i < 6; i++ {
		t.rows = append(t.rows, mrow{"org_id": orgID(int64(1 + i%3)), "region": "eu", "id": int64(i + 1), "name": fmt.Sprintf("n%d", i), "qty": int64(i)})
	}
	// a limit may name two columns: org_id and region (every row is in "eu")
	twoCol := c.Choose(3, "two-column-limit") == 1
	limitOf := func(org int64) sqlgen.Filter {
		if twoCol {
			return sqlgen.Filter{"org_id": org, "region": "eu"}
		}
		return sqlgen.Filter{"org_id": org}
	}
	regionOK := func(v interface{}) bool { s, ok := v.(string); return ok && s == "eu" }
	schema := sqlgen.NewSchema()
	schema.MustRegisterType("items", sqlgen.UniqueId, Item{})
	conn := sql.OpenDB(mconnector{d})
	defer conn.Close()
	base := sqlgen.NewDB(conn, schema)

	// batched complying reads in flight, per limit value
	inflight := map[int64]int{}
	limits := map[int64]bool{}
	d.onStmt = func(st *stmtRec) {
		ci, _ := st.handle.(*callInfo)
		if st.table != "items" {
			return
		}
		if ci != nil {
			ci.stmts++
		}
		who := "a call outside the harness"
		if ci != nil {
			who = fmt.Sprintf("call %d (%s, %s, limit org_id=%d)", ci.idx, ci.op, ci.verdict, ci.org)
		}
		if ci != nil && ci.verdict == "unlimited" {
			return
		}
		if ci != nil && ci.verdict == "violate" && !ci.multiStmt {
			c.Violate("statement-from-non-complying-call/"+ci.op, "%s does not comply with its limit but the statement reached the database: %s %v", who, st.sql, st.args)
		}
		switch st.kind {
		case "SELECT", "COUNT", "DELETE":
			for _, disj := range st.where.dnf() {
				bound, val, contradictory := false, int64(0), false
				for _, a := range disj {
					if a.col == "org_id" && (a.op == "eq" || a.op == "is") {
						if v, ok := a.vals[0].(int64); ok {
							if bound && v != val {
								contradictory = true
							}
							bound, val = true, v
						}
					}
				}
				if contradictory {
					// org_id = x AND org_id = y: the disjunct selects nothing
					c.Probe("disjunct-with-contradictory-org-ids")
					continue
				}
				if twoCol && (ci == nil || ci.verdict != "unlimited") {
					regionBound := false
					for _, a := range disj {
						if a.col == "region" && (a.op == "eq" || a.op == "is") && regionOK(a.vals[0]) {
							regionBound = true
						}
					}
					if !regionBound {
						c.Violate("unconfined-"+strings.ToLower(st.kind)+"/second-limit-column", "%s: a disjunct of the WHERE clause does not confine region to the limit's value: %s %v", who, st.sql, st.args)
					}
				}
				switch {
				case !bound:
					c.Violate("unconfined-"+strings.ToLower(st.kind), "%s: a disjunct of the WHERE clause does not filter on org_id: %s %v", who, st.sql, st.args)
				case ci != nil && !ci.batched && val != ci.org:
					c.Violate("foreign-shard-"+strings.ToLower(st.kind), "%s: WHERE binds org_id to %d: %s %v", who, val, st.sql, st.args)
				case ci != nil && ci.batched && inflight[val] == 0:
					c.Violate("batched-disjunct-without-complying-call", "%s: combined statement has a disjunct for org_id=%d but no complying batched call for that shard is in flight: %s %v", who, val, st.sql, st.args)
				case !limits[val]:
					c.Violate("foreign-shard-"+strings.ToLower(st.kind), "%s: WHERE binds org_id to %d which is no handle's limit: %s %v", who, val, st.sql, st.args)
				}
			}
		case "INSERT", "UPSERT", "UPDATE":
			oi, ri := -1, -1
			for i, col := range st.cols {
				if col == "org_id" {
					oi = i
				}
				if col == "region" {
					ri = i
				}
			}
			for _, tuple := range st.rows {
				if twoCol {
					ok := ri >= 0 && regionOK(tuple[ri])
					if st.kind == "UPDATE" && !ok {
						for _, disj := range st.where.dnf() {
							for _, a := range disj {
								if a.col == "region" && regionOK(a.vals[0]) {
									ok = true
								}
							}
						}
					}
					if !ok {
						c.Violate("foreign-shard-"+strings.ToLower(st.kind)+"/second-limit-column", "%s: the written row is not confined to the limit's region: %s %v", who, st.sql, st.args)
					}
				}
				if st.kind == "UPDATE" {
					// the shard column may be in SET or in WHERE
					ok := false
					if oi >= 0 {
						v, _ := tuple[oi].(int64)
						ok = ci == nil || v == ci.org
					}
					for _, disj := range st.where.dnf() {
						for _, a := range disj {
							if a.col == "org_id" {
								if v, isInt := a.vals[0].(int64); isInt && (ci == nil || v == ci.org) {
									ok = true
								}
							}
						}
					}
					if !ok {
						c.Violate("unconfined-update", "%s: UPDATE carries no org_id equal to the limit: %s %v", who, st.sql, st.args)
					}
					continue
				}
				if oi < 0 {
					c.Violate("unconfined-"+strings.ToLower(st.kind), "%s: written row has no org_id column: %s", who, st.sql)
					continue
				}
				if v, _ := tuple[oi].(int64); ci != nil && v != ci.org {
					c.Violate("foreign-shard-"+strings.ToLower(st.kind), "%s: writes a row with org_id=%d: %s %v", who, v, st.sql, st.args)
				}
			}
		}
	}

	nHandles := 1 + c.Choose(3, "handles")
	type handle struct {
		db  *sqlgen.DB
		org int64
		dyn bool
	}
	var handles []*handle
	for i := 0; i < nHandles; i++ {
		org := orgID(int64(1 + c.Choose(3, "handle-org")))
		limits[org] = true
		h := &handle{org: org}
		var err error
		switch c.Choose(4, "handle-kind") {
		case 3:
			// a shard limit, then a dynamic limit that restricts nothing itself (its
			// callback returns no filter): the shard limit must survive
			h.dyn = true
			h.db, err = base.WithShardLimit(limitOf(org))
			if err == nil {
				h.db, err = h.db.WithDynamicLimit(sqlgen.DynamicLimit{
					GetLimitFilter:        func(ctx context.Context, table string) sqlgen.Filter { return nil },
					ShouldContinueOnError: func(err error, table string) bool { return true },
				})
			}
		case 0:
			h.db, err = base.WithShardLimit(limitOf(org))
		case 1:
			h.dyn = true
			h.db, err = base.WithDynamicLimit(sqlgen.DynamicLimit{
				GetLimitFilter:        func(ctx context.Context, table string) sqlgen.Filter { return limitOf(org) },
				ShouldContinueOnError: func(err error, table string) bool { c.Fault("dynamic-limit-reject"); return false },
			})
		default:
			h.dyn = true
			h.db, err = base.WithShardLimit(limitOf(org))
			if err == nil {
				h.db, err = h.db.WithDynamicLimit(sqlgen.DynamicLimit{
					GetLimitFilter:        func(ctx context.Context, table string) sqlgen.Filter { return limitOf(org) },
					ShouldContinueOnError: func(err error, table string) bool { c.Fault("dynamic-limit-reject"); return false },
				})
			}
		}
		if err == nil && c.Choose(3, "explain-mode") == 1 {
			// sqlgen's test mode: every SELECT is preceded by an EXPLAIN of itself.
			// That is a statement sent to the database like any other.
			c.Probe("handle-in-explain-mode")
			h.db, err = h.db.WithPanicOnNoIndex()
		}
		if err != nil {
			c.Violate("limit-setup-failed", "%v", err)
			return
		}
		handles = append(handles, h)
	}
	bctx := batch.WithBatching(context.Background())
	nCalls := 2 + c.Choose(10, "calls")
	finished := 0
	nextID := int64(100)
	// one *SelectOptions value kept around and passed to several queries (sqlgen
	// writes the filter into it, so its WHERE keeps growing: later queries get
	// fewer rows, never rows outside the limit)
	sharedOpts := map[string]*sqlgen.SelectOptions{}
	for i := 0; i < nCalls; i++ {
		hi := c.Choose(len(handles), "call-handle")
		h := handles[hi]
		ci := &callInfo{idx: i, org: h.org}
		// how the call relates to the limit
		ci.verdict = []string{"comply", "comply", "violate", "violate", "either"}[c.Choose(5, "verdict")]
		other := orgID((h.org&0xffff)%3 + 1)
		var orgVal interface{} = h.org
		var rowOrg = h.org
		var regionVal interface{} = "eu"
		rowRegion := "eu"
		nHow := 3
		if twoCol {
			nHow = 5
		}
		violateHow := c.Choose(nHow, "violate-how")
		if bigOrgs && c.Choose(4, "narrow-integer") == 1 {
			violateHow = 9
		}
		switch ci.verdict {
		case "violate":
			switch violateHow {
			case 0:
				orgVal = other // another shard's value
			case 1:
				orgVal = nil // no org_id in the filter at all
			case 2:
				// another shard's value as the database driver would also accept
				// it: bytes (MySQL compares '2' with the integer column)
				orgVal = []byte(fmt.Sprint(other))
			case 9:
				// the tenant id cut down to 32 bits: another (small) id
				orgVal = int32(h.org)
			case 3:
				// only the second limit column is wrong
				regionVal = "us"
			default:
				regionVal = nil // the second limit column is missing from the filter
			}
			rowOrg = other
			if violateHow == 3 || violateHow == 4 {
				rowOrg, rowRegion = h.org, "us"
			}
		case "either":
			orgVal = int(h.org) // right value, different Go type
		}
		ci.op = []string{"Query", "QueryRow", "Count", "InsertRow", "UpsertRow", "UpdateRow", "DeleteRow", "InsertRows", "UpsertRows", "BaseQueryTwice"}[c.Choose(10, "op")]
		isRead := ci.op == "Query" || ci.op == "QueryRow" || ci.op == "Count" || ci.op == "BaseQueryTwice"
		if !isRead && ci.verdict == "either" {
			ci.verdict = "comply"
		}
		ci.batched = isRead && ci.op != "Count" && c.Choose(2, "batched") == 1
		inTx := !ci.batched && c.Choose(4, "in-tx") == 0
		ci.multiStmt = ci.op == "InsertRows" || ci.op == "UpsertRows"
		filter := sqlgen.Filter{}
		if orgVal != nil {
			filter["org_id"] = orgVal
		}
		if twoCol && regionVal != nil {
			filter["region"] = regionVal
		}
		switch c.Choose(3, "filter-extra") {
		case 1:
			filter["id"] = int64(1 + c.Choose(6, "filter-id"))
		case 2:
			filter["name"] = fmt.Sprintf("n%d", c.Choose(6, "filter-name"))
		}
		nextID++
		id := nextID
		existing := int64(1 + c.Choose(6, "existing-id"))
		withWhere := c.Choose(3, "custom-where") == 1
		shared := c.Choose(6, "shared-options")
		delay := time.Duration(c.Choose(4, "call-delay")) * 500 * time.Microsecond
		c.Describe("call %d: %s on handle(org=%d dyn=%v) verdict=%s batched=%v tx=%v filter=%v", i, ci.op, h.org, h.dyn, ci.verdict, ci.batched, inTx, filter)
		go func() {
			defer func() { finished++ }()
			simrt.Sleep(delay)
			ctx := context.Background()
			if ci.batched {
				ctx = bctx
			}
			ctx = context.WithValue(ctx, handleKey{}, ci)
			var tx *sql.Tx
			if inTx {
				var err error
				ctx, tx, err = h.db.WithTx(ctx)
				if err != nil {
					c.Violate("begin-failed", "%v", err)
					return
				}
				defer tx.Rollback()
			}
			if ci.batched && ci.verdict != "violate" {
				inflight[h.org]++
				defer func() { inflight[h.org]-- }()
			}
			var err error
			var rows []*Item
			var opts *sqlgen.SelectOptions
			if ci.op == "Query" && !ci.batched && withWhere {
				// a custom WHERE with a top-level OR, ANDed with the filter
				opts = &sqlgen.SelectOptions{Where: "name = ? OR qty = ?", Values: []interface{}{"n1", int64(4)}}
			} else if ci.op == "Query" && !ci.batched && shared >= 1 && shared <= 4 {
				// 1, 2: one value per handle and org_id value; 3, 4: one
				// package-level value used for every tenant
				key := fmt.Sprintf("%d/%v/%d", hi, orgVal, shared)
				if shared >= 3 {
					key = fmt.Sprint(shared)
				}
				if sharedOpts[key] == nil {
					if shared%2 == 1 {
						sharedOpts[key] = &sqlgen.SelectOptions{OrderBy: "name"}
					} else {
						sharedOpts[key] = &sqlgen.SelectOptions{Where: "qty = ?", Values: []interface{}{int64(4)}}
					}
				} else {
					c.Probe("select-options-reused")
				}
				opts = sharedOpts[key]
			}
			switch ci.op {
			case "Query":
				err = h.db.Query(ctx, &rows, filter, opts)
			case "QueryRow":
				var it *Item
				err = h.db.QueryRow(ctx, &it, filter, nil)
				if it != nil {
					rows = []*Item{it}
				}
				if err == sql.ErrNoRows || (err != nil && strings.Contains(err.Error(), "no more than 1")) {
					err = nil
				}
			case "BaseQueryTwice":
				// one BaseSelectQuery value used twice (Schema.MakeSelect +
				// DB.BaseQuery): first with another tenant's filter, which the
				// handle refuses, then with the call's own filter
				c.Probe("base-select-query-reused")
				first := sqlgen.Filter{"org_id": other}
				if twoCol {
					first["region"] = "eu"
				}
				bq, berr := schema.MakeSelect(&rows, first, nil)
				if berr != nil {
					c.Violate("make-select-failed", "%v", berr)
					return
				}
				if _, ferr := h.db.BaseQuery(ctx, bq); ferr == nil {
					c.Violate("non-complying-call-accepted/BaseQuery", "call %d: BaseQuery with filter %v on a handle limited to org_id=%d returned no error", ci.idx, first, h.org)
				}
				bq.Filter = filter
				var res []interface{}
				res, err = h.db.BaseQuery(ctx, bq)
				for _, x := range res {
					if it, ok := x.(*Item); ok {
						rows = append(rows, it)
					}
				}
			case "Count":
				_, err = h.db.Count(ctx, &Item{}, filter)
			case "InsertRow":
				_, err = h.db.InsertRow(ctx, &Item{OrgId: rowOrg, Region: rowRegion, Id: id, Name: "new"})
			case "UpsertRow":
				_, err = h.db.UpsertRow(ctx, &Item{OrgId: rowOrg, Region: rowRegion, Id: existing, Name: "up"})
			case "UpdateRow":
				err = h.db.UpdateRow(ctx, &Item{OrgId: rowOrg, Region: rowRegion, Id: existing, Name: "upd", Qty: 9})
			case "DeleteRow":
				err = h.db.DeleteRow(ctx, &Item{OrgId: rowOrg, Region: rowRegion, Id: existing})
			case "InsertRows", "UpsertRows":
				// three rows, the non-complying one (if any) at a drawn position
				bad := c.Choose(3, "bad-row")
				var batchRows []*Item
				for k := 0; k < 3; k++ {
					o, reg := h.org, "eu"
					if ci.verdict == "violate" && k == bad {
						o, reg = rowOrg, rowRegion
					}
					batchRows = append(batchRows, &Item{OrgId: o, Region: reg, Id: id*10 + int64(k), Name: "multi"})
				}
				chunk := 1 + c.Choose(3, "chunk")
				if ci.op == "InsertRows" {
					err = h.db.InsertRows(ctx, batchRows, chunk)
				} else {
					err = h.db.UpsertRows(ctx, batchRows, chunk)
				}
			}
			if tx != nil && err == nil {
				tx.Commit()
			}
			c.NonTrivial()
			switch ci.verdict {
			case "comply":
				if err != nil {
					c.Violate("complying-call-rejected/"+ci.op, "call %d (%s) complies with its limit org_id=%d but failed: %v", ci.idx, ci.op, h.org, err)
				}
			case "violate":
				if err == nil {
					c.Violate("non-complying-call-accepted/"+ci.op, "call %d (%s) does not comply with its limit org_id=%d (filter %v) but returned no error", ci.idx, ci.op, h.org, filter)
				}
			}
			for _, it := range rows {
				if it != nil && (it.OrgId != h.org || (twoCol && it.Region != "eu")) {
					c.Violate("row-from-foreign-shard", "call %d (%s) on a handle limited to org_id=%d received row %+v", ci.idx, ci.op, h.org, *it)
				}
			}
		}()
	}
	for i := 0; i < 120 && finished < nCalls; i++ {
		simrt.Sleep(time.Second)
	}
	if finished < nCalls {
		c.Violate("call-never-returned", "%d of %d calls did not return within two simulated minutes", nCalls-finished, nCalls)
	}
}
