package h6

import (
	"context"
	"database/sql"
	"database/sql/driver"
	"errors"
	"fmt"
	"reflect"
	"sort"
	"strings"
	"time"

	"github.com/samsarahq/thunder/batch"
	"github.com/samsarahq/thunder/sqlgen"
	"simrt"
	"simrt/runner"
)

func init() {
	opts := func(string) simrt.Options { return simrt.Options{MaxSteps: 100000, RotateMaps: true} }
	runner.Register("C10", runner.Scenario{Name: "sql-batching", Options: opts, Body: batchingBody})
	runner.Register("C12", runner.Scenario{Name: "shard-limits", Options: opts, Body: limitsBody})
	park := func(string) simrt.Options {
		return simrt.Options{MaxSteps: 100000, RotateMaps: true, ParkPermille: 15, MapPausePermille: 200, SpawnPausePermille: 30}
	}
	runner.Register("C10", runner.Scenario{Name: "sql-batching-preempt", Options: park, Body: batchingBody})
	runner.Register("C12", runner.Scenario{Name: "shard-limits-preempt", Options: park, Body: limitsBody})
}

type Kind string

// User is the registered table struct.
type User struct {
	Digest []byte // sorts before every other column name
	Id     int64  `sql:",primary"`
	OrgId  int64
	Name   string
	// a field that is no column, in front of columns the batcher matches on
	Scratch string `sql:"-"`
	Nick    *string
	Age     int32
	Kind    Kind
	Active  bool
	// NULL in the database, zero in Go: a filter on 0 means IS NULL
	Boss int64 `sql:",implicitnull"`
	// a DATETIME(6): several rows fall into the same second
	Seen time.Time
}

// seenAt: four instants, three of them within one second.
func seenAt(k int) time.Time {
	base := time.Date(2024, 1, 2, 3, 4, 5, 0, time.UTC)
	return base.Add([]time.Duration{0, 250 * time.Millisecond, 500 * time.Millisecond, time.Second}[k])
}

var userCols = []string{"digest", "id", "org_id", "name", "nick", "age", "kind", "active", "boss", "seen"}

func newSchema() *sqlgen.Schema {
	s := sqlgen.NewSchema()
	s.MustRegisterType("users", sqlgen.AutoIncrement, User{})
	return s
}

func strp(s string) *string { return &s }

// seedUsers fills the model table with few distinct values per column, so
// that filters match several rows.
func seedUsers(c *runner.Ctx, d *mdb, n int) {
	t := d.addTable("users", userCols, []string{"id"})
	for i := 0; i < n; i++ {
		var nick driver.Value
		switch c.Choose(4, "nick") {
		case 1:
			nick = "x"
		case 2:
			nick = "c"
		case 3:
			nick = "bc"
		}
		t.rows = append(t.rows, mrow{
			"digest": []byte([]string{"d1", "d2"}[c.Choose(2, "digest")]),
			"id":     int64(i + 1), "org_id": int64(1 + c.Choose(2, "org")), "name": []string{"ann", "bob", "a", "ab"}[c.Choose(4, "name")],
			"nick": nick, "age": int64(20 + 10*c.Choose(2, "age")), "kind": []string{"k1", "k2"}[c.Choose(2, "kind")], "active": c.Choose(2, "active") == 1,
			"boss": []driver.Value{nil, nil, int64(5), int64(7)}[c.Choose(4, "boss")],
			"seen": seenAt(c.Choose(4, "seen")),
		})
		t.autoInc = int64(i + 1)
	}
}

// genFilter draws a filter; the same column value is written in one of the
// Go representations that denote it (int / int32 / int64, value / pointer,
// named / plain string, nil).
func genFilter(c *runner.Ctx, maxCols int) (sqlgen.Filter, string) {
	f := sqlgen.Filter{}
	var desc []string
	n := c.Choose(maxCols+1, "filter-cols")
	cols := []string{"id", "org_id", "name", "nick", "age", "kind", "active", "digest", "boss", "seen"}
	for i := 0; i < n; i++ {
		col := cols[c.Choose(len(cols), "filter-col")]
		if _, dup := f[col]; dup {
			continue
		}
		var v interface{}
		rep := c.Choose(3, "filter-rep")
		switch col {
		case "id":
			x := int64(1 + c.Choose(6, "filter-id"))
			v = []interface{}{x, int(x), &x}[rep]
		case "org_id":
			x := int64(1 + c.Choose(2, "filter-org"))
			v = []interface{}{x, int(x), &x}[rep]
		case "name":
			x := []string{"ann", "bob", "a", "ab", "nobody"}[c.Choose(5, "filter-name")]
			v = []interface{}{x, &x, x}[rep]
		case "nick":
			switch c.Choose(4, "filter-nick") {
			case 0:
				v = []interface{}{nil, (*string)(nil), nil}[rep]
			case 1:
				v = []interface{}{"x", strp("x"), "x"}[rep]
			case 2:
				v = []interface{}{"c", strp("c"), "c"}[rep]
			default:
				v = []interface{}{"bc", strp("bc"), "bc"}[rep]
			}
		case "age":
			x := int32(20 + 10*c.Choose(2, "filter-age"))
			v = []interface{}{x, int(x), int64(x)}[rep]
		case "kind":
			x := Kind([]string{"k1", "k2"}[c.Choose(2, "filter-kind")])
			v = []interface{}{x, string(x), &x}[rep]
		case "active":
			x := c.Choose(2, "filter-active") == 1
			v = []interface{}{x, &x, x}[rep]
		case "digest":
			v = []byte([]string{"d1", "d2"}[c.Choose(2, "filter-digest")])
		case "seen":
			x := seenAt(c.Choose(4, "filter-seen"))
			v = []interface{}{x, &x, x}[rep]
		case "boss":
			x := []int64{0, 0, 5, 7}[c.Choose(4, "filter-boss")]
			v = []interface{}{x, int(x), int32(x)}[rep]
		}
		f[col] = v
		desc = append(desc, fmt.Sprintf("%s=%s", col, repr(v)))
	}
	sort.Strings(desc)
	return f, "{" + strings.Join(desc, ", ") + "}"
}

func repr(v interface{}) string {
	if v == nil {
		return "nil"
	}
	rv := reflect.ValueOf(v)
	if rv.Kind() == reflect.Ptr {
		if rv.IsNil() {
			return fmt.Sprintf("(%s)(nil)", rv.Type())
		}
		return fmt.Sprintf("&%s(%v)", rv.Type().Elem(), rv.Elem().Interface())
	}
	return fmt.Sprintf("%s(%v)", rv.Type(), v)
}

func userString(u *User) string {
	if u == nil {
		return "<nil>"
	}
	nick := "NULL"
	if u.Nick != nil {
		nick = *u.Nick
	}
	return fmt.Sprintf("{%d org=%d %s nick=%s age=%d %s %v %s boss=%d seen=%s}", u.Id, u.OrgId, u.Name, nick, u.Age, u.Kind, u.Active, u.Digest, u.Boss, u.Seen.Format("05.000"))
}

func usersString(us []*User) string {
	var parts []string
	for _, u := range us {
		parts = append(parts, userString(u))
	}
	sort.Strings(parts)
	return "[" + strings.Join(parts, " ") + "]"
}

type sqlCall struct {
	idx     int
	filter  sqlgen.Filter
	desc    string
	single  bool // QueryRow
	done    bool
	rows    []*User
	err     error
	ownRows []*User
	ownErr  error
}

func errKind(err error) string {
	switch {
	case err == nil:
		return "ok"
	case errors.Is(err, sql.ErrNoRows):
		return "no-rows"
	case strings.Contains(err.Error(), "no more than 1"):
		return "too-many-rows"
	}
	return "error: " + err.Error()
}

func batchingBody(c *runner.Ctx) {
	d := newMDB()
	d.seqFn = simrt.Seq
	seedUsers(c, d, 3+c.Choose(8, "rows"))
	conn := sql.OpenDB(mconnector{d})
	defer conn.Close()
	db := sqlgen.NewDB(conn, newSchema())
	limited := false
	if c.Choose(4, "limited-handle") == 1 {
		// a handle scoped to one tenant: a call whose filter does not comply is
		// refused, batched or not
		org := int64(1 + c.Choose(2, "limit-org"))
		if ldb, err := db.WithShardLimit(sqlgen.Filter{"org_id": org}); err == nil {
			db = ldb
			limited = true
			c.Describe("handle limited to org_id=%d", org)
			c.Probe("limited-handle")
		}
	}
	nCalls := 2 + c.Choose(9, "calls")
	var calls []*sqlCall
	for i := 0; i < nCalls; i++ {
		f, desc := genFilter(c, 3)
		if len(calls) > 0 && c.Choose(5, "same-filter") == 0 {
			// an equal filter issued twice
			prev := calls[c.Choose(len(calls), "same-as")]
			f, desc = prev.filter, prev.desc
		}
		calls = append(calls, &sqlCall{idx: i, filter: f, desc: desc, single: c.Choose(4, "query-row") == 0})
	}
	// faults: a result set may break off while its rows are being read
	faultsOn := c.Choose(3, "class") == 1
	c.Class = "fault-free"
	if faultsOn {
		c.Class = "row-stream-faults"
		d.breakRows = func(st *stmtRec, n int) int {
			if !faultsOn || st.kind != "SELECT" || c.Biased(2, 750, "row-stream-breaks") == 0 {
				return -1
			}
			c.Fault("row-stream-error")
			return c.Choose(n+1, "row-stream-breaks-at")
		}
	}
	bctx := batch.WithBatching(context.Background())
	// the calls may all run inside one transaction that has uncommitted writes
	// of its own (batching context and transaction context combined): they must
	// see those writes, as each of them does on its own
	ownCtx := context.Background()
	if c.Choose(5, "in-transaction") == 1 && !limited {
		d.isolate = true
		tctx, tx, err := db.WithTx(bctx)
		if err != nil {
			c.Violate("begin-failed", "%v", err)
			return
		}
		defer tx.Rollback()
		c.Probe("calls-inside-a-transaction")
		c.Describe("all calls inside one transaction with uncommitted writes")
		if _, err := db.InsertRow(tctx, &User{Digest: []byte("d1"), OrgId: 1, Name: "ann", Nick: strp("x"), Age: 20, Kind: "k1", Active: true}); err != nil {
			c.Violate("tx-write-failed", "%v", err)
			return
		}
		if _, err := db.InsertRow(tctx, &User{Digest: []byte("d2"), OrgId: 2, Name: "ab", Age: 30, Kind: "k2"}); err != nil {
			c.Violate("tx-write-failed", "%v", err)
			return
		}
		bctx = tctx
		if ownCtx, err = db.WithExistingTx(context.Background(), tx); err != nil {
			c.Violate("begin-failed", "%v", err)
			return
		}
	}
	grid := []time.Duration{0, 0, 0, 500 * time.Microsecond, time.Millisecond, 2 * time.Millisecond, 19 * time.Millisecond, 21 * time.Millisecond}
	finished := 0
	for _, call := range calls {
		call := call
		delay := grid[c.Choose(len(grid), "call-delay")]
		c.Describe("call %d (+%v, row=%v) filter %s", call.idx, delay, call.single, call.desc)
		go func() {
			defer func() { finished++ }()
			simrt.Sleep(delay)
			if call.single {
				var u *User
				call.err = db.QueryRow(bctx, &u, call.filter, nil)
				if u != nil {
					call.rows = []*User{u}
				}
			} else {
				call.err = db.Query(bctx, &call.rows, call.filter, nil)
			}
			call.done = true
		}()
	}
	for i := 0; i < 120 && finished < len(calls); i++ {
		simrt.Sleep(time.Second)
	}
	selects := 0
	for _, st := range d.stmts {
		if st.kind == "SELECT" {
			selects++
		}
	}
	if selects < len(calls) {
		c.Probe("batched")
		c.NonTrivial()
	}
	faultsOn = false
	// every call on its own, without batching, against the same table
	for _, call := range calls {
		if !call.done {
			c.Violate("query-never-returned", "call %d with filter %s did not return within two simulated minutes", call.idx, call.desc)
			continue
		}
		if call.single {
			var u *User
			call.ownErr = db.QueryRow(ownCtx, &u, call.filter, nil)
			if u != nil {
				call.ownRows = []*User{u}
			}
		} else {
			call.ownErr = db.Query(ownCtx, &call.ownRows, call.filter, nil)
		}
		if call.err != nil && strings.Contains(call.err.Error(), "SIM-row-stream-broken") {
			// the statement serving this call broke off: the call failed, which is
			// the one acceptable outcome besides its own rows
			c.Probe("call-failed-with-the-injected-stream-error")
			if len(call.rows) > 0 {
				c.Violate("rows-and-error", "call %d with filter %s returned both an error and %d rows", call.idx, call.desc, len(call.rows))
			}
			continue
		}
		if errKind(call.err) != errKind(call.ownErr) {
			c.Violate("batched-outcome-differs/"+strings.SplitN(errKind(call.ownErr), ":", 2)[0]+"-vs-"+strings.SplitN(errKind(call.err), ":", 2)[0],
				"call %d with filter %s: on its own it ends as %q, batched with %d other calls as %q", call.idx, call.desc, errKind(call.ownErr), len(calls)-1, errKind(call.err))
			continue
		}
		if got, want := usersString(call.rows), usersString(call.ownRows); got != want {
			key := "batched-rows-differ"
			if len(call.rows) < len(call.ownRows) {
				key += "/rows-missing"
			} else if len(call.rows) > len(call.ownRows) {
				key += "/foreign-rows"
			}
			c.Violate(key, "call %d with filter %s: on its own it returns %s, batched with %d other calls it returned %s", call.idx, call.desc, want, len(calls)-1, got)
		}
	}
}
