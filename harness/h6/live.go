package h6

import (
	"context"
	"database/sql"
	"database/sql/driver"
	"errors"
	"fmt"
	"reflect"
	"sort"
	"strings"
	"time"
	"unsafe"

	ngautlog "github.com/ngaut/log"
	"github.com/samsarahq/thunder/batch"
	"github.com/samsarahq/thunder/livesql"
	"github.com/samsarahq/thunder/reactive"
	"github.com/samsarahq/thunder/sqlgen"
	"github.com/siddontang/go-mysql/replication"
	"simrt"
	"simrt/runner"
)

func init() {
	ngautlog.SetLevelByString("fatal")
	opts := func(string) simrt.Options { return simrt.Options{MaxSteps: 200000, RotateMaps: true} }
	runner.Register("C07", runner.Scenario{Name: "live-sql", Options: opts, Body: liveBody})
	runner.Register("C07", runner.Scenario{Name: "live-sql-stall", Options: func(string) simrt.Options {
		return simrt.Options{MaxSteps: 200000, RotateMaps: true, StallPermille: 30, StallMax: 20 * time.Millisecond}
	}, Body: liveBody})
	runner.Register("C07", runner.Scenario{Name: "live-sql-preempt", Options: func(string) simrt.Options {
		return simrt.Options{MaxSteps: 200000, RotateMaps: true, ParkPermille: 8, MapPausePermille: 200, SpawnPausePermille: 30}
	}, Body: liveBody})
}

type quietLogger struct{ errors *int }

func (quietLogger) Debug(string, ...interface{}) {}
func (quietLogger) Info(string, ...interface{})  {}
func (quietLogger) Warn(string, ...interface{})  {}
func (l quietLogger) Error(msg string, tags ...interface{}) {
	*l.errors++
	simrt.Logf("binlog logger error: %s %v", msg, tags)
}

// newStreamer builds a replication.BinlogStreamer whose (unexported) channels
// are created inside the simulation and owned by the harness.
func newStreamer() (*replication.BinlogStreamer, chan *replication.BinlogEvent, chan error) {
	s := &replication.BinlogStreamer{}
	ch := make(chan *replication.BinlogEvent, 1024)
	ech := make(chan error, 4)
	v := reflect.ValueOf(s).Elem()
	*(*chan *replication.BinlogEvent)(unsafe.Pointer(v.FieldByName("ch").UnsafeAddr())) = ch
	*(*chan error)(unsafe.Pointer(v.FieldByName("ech").UnsafeAddr())) = ech
	return s, ch, ech
}

// binlogValue renders a stored column value the way the replication decoder
// hands it out (typed integers per column width, strings, nil).
func indexOf(l []string, x string) int {
	for i, s := range l {
		if s == x {
			return i
		}
	}
	return -1
}

func binlogValue(col string, v driver.Value) interface{} {
	if v == nil {
		return nil
	}
	switch col {
	case "seen":
		// go-mysql delivers DATETIME(6) as text
		if t, ok := v.(time.Time); ok {
			return t.Format("2006-01-02 15:04:05.000000")
		}
	case "age":
		return int32(v.(int64))
	case "active":
		if b, ok := v.(bool); ok {
			if b {
				return int8(1)
			}
			return int8(0)
		}
		return int8(v.(int64))
	}
	return v
}

type liveQuery struct {
	idx    int
	filter sqlgen.Filter
	desc   string
	single bool
	// viaDep: the computation re-registers a serialised dependency
	// (FilterToProto -> FilterFromProto -> LiveDB.AddDependency) and reads
	// through the plain, non-live handle, as a server that restores
	// dependencies recorded earlier does
	viaDep  bool
	runs    int
	lastIDs string
	lastErr string
	rr      *reactive.Rerunner
	// second: another query issued by the same computation (same rerunner, so
	// both go through the same reactive cache)
	second *liveQuery
}

func liveBody(c *runner.Ctx) {
	d := newMDB()
	d.seqFn = simrt.Seq
	seedUsers(c, d, 2+c.Choose(6, "rows"))
	tbl := d.tables["users"]
	conn := sql.OpenDB(mconnector{d})
	// the primary key is auto-increment or supplied by the writer (only the
	// latter supports UpsertRow)
	uniqueIDs := c.Choose(2, "unique-id-primary-key") == 1
	schema := newSchema()
	if uniqueIDs {
		schema = sqlgen.NewSchema()
		schema.MustRegisterType("users", sqlgen.UniqueId, User{})
	}
	nextID := int64(50)
	ldb := livesql.NewLiveDB(sqlgen.NewDB(conn, schema))
	plain := sqlgen.NewDB(conn, schema) // non-live reads of computations that restore a serialised dependency
	streamer, evCh, errCh := newStreamer()
	bl := livesql.NewBinlogForVerif(ldb, "testdb", streamer)
	logErrors := 0
	bl.SetLogger(quietLogger{&logErrors})
	updateDelay := []time.Duration{0, 0, 50 * time.Millisecond}[c.Choose(3, "update-delay")]
	bl.SetUpdateDelay(updateDelay)
	pollDone := false
	go func() {
		bl.RunPollLoop()
		pollDone = true
	}()

	// ---- the replication stream ----
	tableID := uint64(7)
	var pending []*replication.BinlogEvent
	undecodable := 0
	emit := func(typ replication.EventType, rows [][]interface{}) {
		tm := &replication.TableMapEvent{TableID: tableID, Schema: []byte("testdb"), Table: []byte("users"), ColumnCount: uint64(len(tbl.columns))}
		pending = append(pending,
			&replication.BinlogEvent{Header: &replication.EventHeader{EventType: replication.TABLE_MAP_EVENT}, Event: tm},
			&replication.BinlogEvent{Header: &replication.EventHeader{EventType: typ}, Event: &replication.RowsEvent{Version: 2, Table: tm, TableID: tableID, ColumnCount: uint64(len(tbl.columns)), Rows: rows}})
	}
	image := func(r mrow) []interface{} {
		out := make([]interface{}, len(tbl.columns))
		for i, col := range tbl.columns {
			if col == "legacy" {
				// a column the Go struct does not map: a TINYINT, here the
				// opposite of "active"
				out[i] = int8(1) - binlogValue("active", r["active"]).(int8)
				continue
			}
			out[i] = binlogValue(col, r[col])
		}
		return out
	}
	// the table may carry a column the application no longer maps, in front of
	// the last column; a schema change can drop it
	if c.Choose(2, "legacy-column") == 1 {
		n := len(tbl.columns)
		tbl.columns = append(append(append([]string{}, tbl.columns[:n-1]...), "legacy"), tbl.columns[n-1])
	}
	d.afterExec = func(st *stmtRec, before, after []mrow) {
		if st.table != "users" {
			return
		}
		var ins, upd, del [][]interface{}
		for i := range before {
			switch {
			case before[i] == nil:
				ins = append(ins, image(after[i]))
			case after[i] == nil:
				del = append(del, image(before[i]))
			default:
				upd = append(upd, image(before[i]), image(after[i]))
			}
		}
		if len(ins) > 0 {
			emit(replication.WRITE_ROWS_EVENTv2, ins)
		}
		if len(upd) > 0 {
			emit(replication.UPDATE_ROWS_EVENTv2, upd)
		}
		if len(del) > 0 {
			emit(replication.DELETE_ROWS_EVENTv2, del)
		}
	}
	writesDone := false
	bursting := false // during a burst the replication connection delivers without delays
	delivered := 0
	go func() { // the replication connection: in order, with delays and stalls
		for !(writesDone && len(pending) == 0) {
			if len(pending) == 0 {
				simrt.Sleep(time.Millisecond)
				continue
			}
			switch d := c.Biased(4, 600, "binlog-delay"); map[bool]int{true: 0, false: d}[bursting] {
			case 1:
				c.Fault("binlog-delay")
				simrt.Sleep(time.Duration(1+c.Choose(30, "binlog-delay-ms")) * time.Millisecond)
			case 2:
				c.Fault("binlog-stall")
				simrt.Sleep(time.Duration(1+c.Choose(3, "binlog-stall-s")) * time.Second)
			default:
				simrt.Yield()
			}
			ev := pending[0]
			pending = pending[1:]
			evCh <- ev
			delivered++
		}
	}()

	// ---- live queries ----
	ctx, cancelAll := context.WithCancel(context.Background())
	nQ := 1 + c.Choose(3, "live-queries")
	var queries []*liveQuery
	for i := 0; i < nQ; i++ {
		f, desc := genFilter(c, 2)
		q := &liveQuery{idx: i, filter: f, desc: desc, single: c.Choose(5, "query-row") == 0, viaDep: c.Choose(5, "via-serialised-dependency") == 1}
		queries = append(queries, q)
		batched := c.Choose(2, "batched") == 1
		c.Describe("live query %d filter %s row=%v batched=%v", i, desc, q.single, batched)
		colliding := c.Choose(8, "colliding-pair") == 1
		if colliding {
			// two queries of one computation whose argument tuples read the same
			// when written one after the other: ("a","bc") and ("ab","c")
			c.Probe("queries-with-colliding-argument-text")
			pair := [][2]string{{"a", "bc"}, {"ab", "c"}}
			k := c.Choose(2, "colliding-order")
			q.filter = sqlgen.Filter{"name": pair[k][0], "nick": pair[k][1]}
			q.desc = fmt.Sprintf("{name=string(%s), nick=string(%s)}", pair[k][0], pair[k][1])
			q.viaDep = false
			f2 := sqlgen.Filter{"name": pair[1-k][0], "nick": pair[1-k][1]}
			q.second = &liveQuery{idx: 100 + i, filter: f2, desc: fmt.Sprintf("{name=string(%s), nick=string(%s)}", pair[1-k][0], pair[1-k][1])}
			queries = append(queries, q.second)
			c.Describe("live query %d now %s; live query %d (same rerunner) filter %s", i, q.desc, q.second.idx, q.second.desc)
		} else if c.Choose(3, "second-query") == 1 {
			// the same computation issues a second query with the same filter
			// columns and other values (strings are drawn from a set in which
			// different value tuples concatenate to the same text)
			f2 := sqlgen.Filter{}
			var d2 []string
			for col := range f {
				switch col {
				case "name":
					f2[col] = []string{"a", "ab", "ann"}[c.Choose(3, "second-name")]
				case "nick":
					f2[col] = []string{"bc", "c", "x"}[c.Choose(3, "second-nick")]
				case "kind":
					f2[col] = Kind([]string{"k1", "k2"}[c.Choose(2, "second-kind")])
				default:
					f2[col] = f[col]
				}
				d2 = append(d2, fmt.Sprintf("%s=%s", col, repr(f2[col])))
			}
			sort.Strings(d2)
			q.second = &liveQuery{idx: 100 + i, filter: f2, desc: "{" + strings.Join(d2, ", ") + "}"}
			queries = append(queries, q.second)
			c.Describe("live query %d (same rerunner as %d) filter %s", q.second.idx, i, q.second.desc)
		}
		runQuery := func(ctx context.Context, q *liveQuery) error {
			var rows []*User
			var err error
			if q.viaDep {
				c.Probe("dependency-restored-from-its-serialised-form")
				p, perr := livesql.FilterToProto(schema, "users", q.filter)
				if perr != nil {
					c.Violate("dependency-not-serialisable", "FilterToProto(%s): %v", q.desc, perr)
					return perr
				}
				tname, f2, perr := livesql.FilterFromProto(schema, p)
				if perr != nil {
					c.Violate("dependency-not-restorable", "FilterFromProto(%s): %v", q.desc, perr)
					return perr
				}
				if perr := ldb.AddDependency(ctx, livesql.QueryDependency{Table: tname, Filter: f2}); perr != nil {
					c.Violate("dependency-not-restorable", "AddDependency(%s): %v", q.desc, perr)
					return perr
				}
				if q.single {
					var u *User
					err = plain.QueryRow(context.Background(), &u, q.filter, nil)
					if u != nil {
						rows = []*User{u}
					}
				} else {
					err = plain.Query(context.Background(), &rows, q.filter, nil)
				}
			} else {
				// the caller's filter map is its own: it is reused (overwritten)
				// as soon as the query has returned
				f := sqlgen.Filter{}
				for k, v := range q.filter {
					f[k] = v
				}
				if q.single {
					var u *User
					err = ldb.QueryRow(ctx, &u, f, nil)
					if u != nil {
						rows = []*User{u}
					}
				} else {
					err = ldb.Query(ctx, &rows, f, nil)
				}
				for k := range f {
					f[k] = int64(-12345)
				}
			}
			q.runs++
			q.lastErr = errKind(err)
			q.lastIDs = usersString(rows)
			simrt.Logf("live query %d run %d -> %s %s", q.idx, q.runs, q.lastIDs, q.lastErr)
			if err != nil && strings.Contains(err.Error(), "SIM-row-stream-broken") {
				// a transient database error: like the graphql server does for a
				// re-computation, ask the rerunner to try again
				c.Probe("live-query-hit-stream-error")
				return reactive.RetrySentinelError
			}
			if err != nil && !errors.Is(err, sql.ErrNoRows) && !strings.Contains(err.Error(), "no more than 1") {
				return err
			}
			return nil
		}
		q.rr = reactive.NewRerunner(ctx, func(ctx context.Context) (interface{}, error) {
			if q.runs >= 1 {
				c.NonTrivial()
			}
			if batched {
				ctx = batch.WithBatching(ctx)
			}
			if err := runQuery(ctx, q); err != nil {
				return nil, err
			}
			if q.second != nil {
				if err := runQuery(ctx, q.second); err != nil {
					return nil, err
				}
			}
			return nil, nil
		}, 10*time.Millisecond, c.Choose(2, "always-spawn") == 1)
	}

	// ---- writers ----
	writer := sqlgen.NewDB(conn, schema) // "another client": not live, same database
	nWrites := 2 + c.Choose(9, "writes")
	faulty := c.Choose(2, "class") == 1
	c.Class = "fault-free"
	if faulty {
		c.Class = "schema-changes"
	}
	// a result set may break off while rows stream in (a dropped connection):
	// only while writes are going on, so that the last word is a clean read
	streamFaults := c.Choose(3, "row-stream-faults") == 1
	if streamFaults {
		d.breakRows = func(st *stmtRec, n int) int {
			if !streamFaults || st.kind != "SELECT" || st.table != "users" || c.Biased(2, 800, "row-stream-breaks") == 0 {
				return -1
			}
			c.Fault("row-stream-error")
			return c.Choose(n+1, "row-stream-breaks-at")
		}
	}
	var desc []string
	countsSeen := map[int]bool{}
	for k := 0; k < nWrites; k++ {
		switch c.Choose(3, "write-pause") {
		case 1:
			simrt.Sleep(time.Duration(c.Choose(20, "write-pause-ms")) * 5 * time.Millisecond)
		case 2:
			simrt.Yield()
		}
		// livesql documents that it cannot tell two layouts with the same number
		// of columns apart when an event of the older one is still in flight
		// ("we might return garbage data and miss invalidations"). ADD and DROP
		// are therefore only combined so that no column count comes back.
		countsSeen[len(tbl.columns)] = true
		if faulty && c.Biased(3, 700, "schema-change") > 0 && !countsSeen[len(tbl.columns)+1] {
			// ALTER TABLE: a new column, a new table id for later events. Events
			// still in flight carry the old number of columns.
			c.Fault("schema-change")
			tbl.columns = append(tbl.columns, fmt.Sprintf("extra%d", len(tbl.columns)))
			tableID++
			desc = append(desc, "ALTER")
		} else if legacyAt := indexOf(tbl.columns, "legacy"); faulty && legacyAt >= 0 && !countsSeen[len(tbl.columns)-1] && c.Biased(3, 800, "schema-drop-column") > 0 {
			// ALTER TABLE ... DROP COLUMN: events still in flight carry one value
			// more than the table has columns now
			c.Fault("schema-drop-column")
			tbl.columns = append(append([]string{}, tbl.columns[:legacyAt]...), tbl.columns[legacyAt+1:]...)
			tableID++
			desc = append(desc, "DROP-COLUMN")
		} else if faulty && c.Biased(4, 800, "schema-reorder") > 0 && len(pending) == 0 && len(evCh) == 0 {
			// ALTER TABLE ... MODIFY ... AFTER ...: same number of columns, other
			// order, new table id. Only done while no event is in flight: a
			// reorder racing with an in-flight event is a limitation the code
			// documents (same column count decodes into the wrong fields).
			simrt.Sleep(time.Second)
			if len(pending) == 0 && len(evCh) == 0 {
				c.Fault("schema-reorder")
				cols := append([]string{}, tbl.columns...)
				ni, ki := -1, -1
				for i, col := range cols {
					switch col {
					case "name":
						ni = i
					case "kind":
						ki = i
					}
				}
				cols[ni], cols[ki] = cols[ki], cols[ni]
				tbl.columns = cols
				tableID++
				desc = append(desc, "REORDER")
			}
		}
		id := int64(1 + c.Choose(len(tbl.rows)+2, "write-id"))
		var nick *string
		switch c.Choose(4, "write-nick") {
		case 1:
			nick = strp("x")
		case 2:
			nick = strp("c")
		case 3:
			nick = strp("bc")
		}
		u := &User{Digest: []byte([]string{"d1", "d2"}[c.Choose(2, "write-digest")]), Id: id, OrgId: int64(1 + c.Choose(2, "write-org")), Name: []string{"ann", "bob", "a", "ab"}[c.Choose(4, "write-name")], Nick: nick,
			Age: int32(20 + 10*c.Choose(2, "write-age")), Kind: Kind([]string{"k1", "k2"}[c.Choose(2, "write-kind")]), Active: c.Choose(2, "write-active") == 1, Boss: []int64{0, 0, 5, 7}[c.Choose(4, "write-boss")], Seen: seenAt(c.Choose(4, "write-seen"))}
		var err error
		op := []string{"upsert", "update", "delete", "insert", "multi-update", "multi-delete", "multi-insert"}[c.Choose(7, "write-op")]
		switch op {
		case "multi-update":
			// one statement, one rows event, several rows
			_, err = conn.ExecContext(context.Background(), "UPDATE users SET age = ?, kind = ? WHERE org_id = ?", int64(u.Age), string(u.Kind), u.OrgId)
		case "multi-delete":
			_, err = conn.ExecContext(context.Background(), "DELETE FROM users WHERE name = ?", u.Name)
		case "multi-insert":
			u2, u3 := *u, *u
			u.Id, u2.Id, u3.Id = 0, 0, 0
			if uniqueIDs {
				u.Id, u2.Id, u3.Id = nextID, nextID+1, nextID+2
				nextID += 3
			}
			u2.OrgId, u3.Name = 3-u.OrgId, "ab"
			err = writer.InsertRows(context.Background(), []*User{u, &u2, &u3}, 10)
		case "upsert":
			if uniqueIDs {
				c.Probe("upsert")
				_, err = writer.UpsertRow(context.Background(), u)
			} else {
				// (UpsertRow needs a writer-supplied key) a second update instead
				err = writer.UpdateRow(context.Background(), u)
			}
		case "update":
			err = writer.UpdateRow(context.Background(), u)
		case "delete":
			err = writer.DeleteRow(context.Background(), u)
		case "insert":
			u.Id = 0
			if uniqueIDs {
				u.Id = nextID
				nextID++
			}
			_, err = writer.InsertRow(context.Background(), u)
		}
		desc = append(desc, fmt.Sprintf("%s(%d)", op, id))
		simrt.Logf("write %s %s -> %v", op, userString(u), err)
		if err != nil {
			simrt.Logf("write %s failed: %v", op, err)
		}
	}
	if updateDelay > 0 && c.Choose(4, "burst") == 1 && len(tbl.rows) > 0 {
		// a burst of more change events than the poll loop's update queue holds,
		// delivered while the applier is still waiting out the update delay; the
		// last write of the burst is one that matters
		c.Fault("binlog-burst")
		bursting = true
		target := tbl.rows[0]["id"].(int64)
		for i := 0; i < 1100; i++ {
			conn.ExecContext(context.Background(), "UPDATE users SET active = ? WHERE id = ?", i%2 == 0, target)
		}
		conn.ExecContext(context.Background(), "UPDATE users SET name = ?, kind = ?, age = ? WHERE id = ?", "bob", "k2", int64(30), target)
		desc = append(desc, "BURST(1101 updates)")
	}
	writesDone = true
	c.Describe("writes: %s", strings.Join(desc, " "))

	streamFaults = false
	// ---- quiescence ----
	for i := 0; i < 3000 && len(pending) > 0; i++ {
		simrt.Sleep(time.Second)
	}
	if len(pending) > 0 {
		c.Violate("harness-stream-not-drained", "%d events still undelivered", len(pending))
		return
	}
	simrt.Sleep(5 * time.Minute)
	undecodable = logErrors
	if undecodable > 0 {
		c.Probe("undecodable-event")
	}
	for _, q := range queries {
		// the model's direct evaluation of the filter on the final table
		var want []*User
		var wantErr error
		if q.single {
			var u *User
			wantErr = writer.QueryRow(context.Background(), &u, q.filter, nil)
			if u != nil {
				want = []*User{u}
			}
		} else {
			wantErr = writer.Query(context.Background(), &want, q.filter, nil)
		}
		if q.runs == 0 {
			c.Violate("live-query-never-ran", "live query %d never ran", q.idx)
			continue
		}
		if got, exp := q.lastIDs+" "+q.lastErr, usersString(want)+" "+errKind(wantErr); got != exp {
			key := "live-query-stale"
			if undecodable > 0 {
				key = "live-query-stale/after-undecodable-event"
			}
			c.Violate(key, "live query %d (filter %s) holds %s after %d runs, but the database now returns %s (%d change events could not be decoded)", q.idx, q.desc, got, q.runs, exp, undecodable)
		}
	}
	for _, q := range queries {
		q := q
		if q.rr != nil {
			go func() { q.rr.Stop() }()
		}
	}
	cancelAll()
	errCh <- errors.New("replication connection closed")
	simrt.Sleep(time.Minute)
	if !pollDone {
		c.Violate("poll-loop-never-returned", "RunPollLoop did not return after the stream ended")
	}
	conn.Close()
}
