// Package h6 simulates sqlgen / livesql over an in-memory MySQL model
// (properties C07, C10, C12).
package h6

import (
	"bytes"
	"context"
	"database/sql/driver"
	"errors"
	"fmt"
	"io"
	"sort"
	"strings"
	"time"
)

// The MySQL model: tables of rows, the statement subset thunder emits, SQL's
// three-valued logic for comparisons with NULL. It runs with the simulator's
// baton held (database/sql calls the driver on the caller's goroutine), so it
// needs no locking; scheduling points sit in front of every database/sql call
// in the instrumented thunder code.

type mrow map[string]driver.Value

type mtable struct {
	name    string
	columns []string
	primary []string
	rows    []mrow
	autoInc int64
}

// stmtRec is one statement as received by the driver.
type stmtRec struct {
	seq    uint64
	sql    string
	args   []driver.Value
	handle interface{} // value of handleKey in the statement's context
	kind   string      // SELECT, COUNT, INSERT, UPSERT, UPDATE, DELETE, OTHER
	table  string
	where  *wnode
	cols   []string         // written columns (INSERT/UPSERT/UPDATE)
	rows   [][]driver.Value // written value tuples (INSERT/UPSERT)
	inTx   bool
	result []mrow
	// explain: the statement was sent as EXPLAIN <statement> (sqlgen's
	// WithPanicOnNoIndex mode); everything else describes <statement>
	explain bool
}

type handleKey struct{}

type mdb struct {
	tables   map[string]*mtable
	stmts    []*stmtRec
	onStmt   func(*stmtRec)       // observation hook (with the baton held)
	failNext func(*stmtRec) error // fault injection: return an error for this statement
	// fault injection: the result set of this SELECT (n rows) breaks off after
	// the returned number of rows with a driver error (< 0: it does not)
	breakRows func(st *stmtRec, n int) int
	// isolate: reads from a connection other than the one with the open
	// transaction (txConn) see the table as it was when that transaction began
	isolate   bool
	txConn    *mconn
	reader    *mconn                         // the connection executing the current statement
	afterExec func(*stmtRec, []mrow, []mrow) // (stmt, before images, after images) of committed writes
	seqFn     func() uint64
}

func newMDB() *mdb { return &mdb{tables: map[string]*mtable{}, seqFn: func() uint64 { return 0 }} }

func (d *mdb) addTable(name string, columns, primary []string) *mtable {
	t := &mtable{name: name, columns: columns, primary: primary}
	d.tables[name] = t
	return t
}

// ---- values ----

func isNull(v driver.Value) bool { return v == nil }

func asFloat(v driver.Value) (float64, bool) {
	switch x := v.(type) {
	case int64:
		return float64(x), true
	case float64:
		return x, true
	case bool:
		if x {
			return 1, true
		}
		return 0, true
	}
	return 0, false
}

func asBytes(v driver.Value) ([]byte, bool) {
	switch x := v.(type) {
	case string:
		return []byte(x), true
	case []byte:
		return x, true
	}
	return nil, false
}

// sqlEq: SQL equality; the second result is false when the comparison is
// UNKNOWN (a NULL operand).
func sqlEq(a, b driver.Value) (eq bool, known bool) {
	if isNull(a) || isNull(b) {
		return false, false
	}
	if fa, ok := asFloat(a); ok {
		if fb, ok := asFloat(b); ok {
			return fa == fb, true
		}
	}
	if ba, ok := asBytes(a); ok {
		if bb, ok := asBytes(b); ok {
			return bytes.Equal(ba, bb), true
		}
	}
	if ta, ok := a.(time.Time); ok {
		if tb, ok := b.(time.Time); ok {
			return ta.Equal(tb), true
		}
	}
	return fmt.Sprint(a) == fmt.Sprint(b), true
}

// ---- WHERE ----

type wnode struct {
	op   string // "or", "and", "eq", "is", "in", "true"
	kids []*wnode
	col  string
	vals []driver.Value
}

// tri: 1 true, 0 false, -1 unknown
func (w *wnode) eval(r mrow) int {
	switch w.op {
	case "true":
		return 1
	case "eq":
		eq, known := sqlEq(r[w.col], w.vals[0])
		if !known {
			return -1
		}
		if eq {
			return 1
		}
		return 0
	case "is":
		if isNull(w.vals[0]) {
			if isNull(r[w.col]) {
				return 1
			}
			return 0
		}
		// IS with a non-NULL boolean operand is not emitted by thunder
		eq, known := sqlEq(r[w.col], w.vals[0])
		if known && eq {
			return 1
		}
		return 0
	case "in":
		res := 0
		for _, v := range w.vals {
			eq, known := sqlEq(r[w.col], v)
			if known && eq {
				return 1
			}
			if !known {
				res = -1
			}
		}
		return res
	case "and":
		res := 1
		for _, k := range w.kids {
			switch k.eval(r) {
			case 0:
				return 0
			case -1:
				res = -1
			}
		}
		return res
	case "or":
		res := 0
		for _, k := range w.kids {
			switch k.eval(r) {
			case 1:
				return 1
			case -1:
				res = -1
			}
		}
		return res
	}
	panic("bad wnode " + w.op)
}

// dnf returns the disjuncts of the clause, each a list of atoms.
func (w *wnode) dnf() [][]*wnode {
	switch w.op {
	case "or":
		var out [][]*wnode
		for _, k := range w.kids {
			out = append(out, k.dnf()...)
		}
		return out
	case "and":
		out := [][]*wnode{{}}
		for _, k := range w.kids {
			var next [][]*wnode
			for _, a := range out {
				for _, b := range k.dnf() {
					next = append(next, append(append([]*wnode{}, a...), b...))
				}
			}
			out = next
		}
		return out
	case "in":
		var out [][]*wnode
		for _, v := range w.vals {
			out = append(out, []*wnode{{op: "eq", col: w.col, vals: []driver.Value{v}}})
		}
		return out
	case "true":
		return [][]*wnode{{}}
	}
	return [][]*wnode{{w}}
}

type lexer struct {
	toks []string
	pos  int
	args []driver.Value
	argi int
}

func lex(s string) []string {
	var toks []string
	i := 0
	for i < len(s) {
		c := s[i]
		switch {
		case c == ' ' || c == '\n' || c == '\t':
			i++
		case c == '(' || c == ')' || c == ',' || c == '=' || c == '?' || c == '*':
			toks = append(toks, string(c))
			i++
		default:
			j := i
			for j < len(s) && !strings.ContainsRune(" \n\t(),=?*", rune(s[j])) {
				j++
			}
			toks = append(toks, s[i:j])
			i = j
		}
	}
	return toks
}

func (l *lexer) peek() string {
	if l.pos < len(l.toks) {
		return l.toks[l.pos]
	}
	return ""
}
func (l *lexer) peekUp() string { return strings.ToUpper(l.peek()) }
func (l *lexer) next() string   { t := l.peek(); l.pos++; return t }
func (l *lexer) expect(t string) error {
	if got := l.next(); strings.ToUpper(got) != t {
		return fmt.Errorf("sql model: expected %q, got %q", t, got)
	}
	return nil
}
func (l *lexer) arg() (driver.Value, error) {
	if l.argi >= len(l.args) {
		return nil, errors.New("sql model: not enough arguments")
	}
	v := l.args[l.argi]
	l.argi++
	return v, nil
}

func (l *lexer) parseOr() (*wnode, error) {
	left, err := l.parseAnd()
	if err != nil {
		return nil, err
	}
	kids := []*wnode{left}
	for l.peekUp() == "OR" {
		l.next()
		k, err := l.parseAnd()
		if err != nil {
			return nil, err
		}
		kids = append(kids, k)
	}
	if len(kids) == 1 {
		return left, nil
	}
	return &wnode{op: "or", kids: kids}, nil
}

func (l *lexer) parseAnd() (*wnode, error) {
	left, err := l.parseAtom()
	if err != nil {
		return nil, err
	}
	kids := []*wnode{left}
	for l.peekUp() == "AND" {
		l.next()
		k, err := l.parseAtom()
		if err != nil {
			return nil, err
		}
		kids = append(kids, k)
	}
	if len(kids) == 1 {
		return left, nil
	}
	return &wnode{op: "and", kids: kids}, nil
}

func (l *lexer) parseAtom() (*wnode, error) {
	if l.peek() == "(" {
		l.next()
		n, err := l.parseOr()
		if err != nil {
			return nil, err
		}
		return n, l.expect(")")
	}
	col := l.next()
	switch op := strings.ToUpper(l.next()); op {
	case "=":
		if err := l.expect("?"); err != nil {
			return nil, err
		}
		v, err := l.arg()
		return &wnode{op: "eq", col: col, vals: []driver.Value{v}}, err
	case "IS":
		if l.peekUp() == "NULL" {
			l.next()
			return &wnode{op: "is", col: col, vals: []driver.Value{nil}}, nil
		}
		if err := l.expect("?"); err != nil {
			return nil, err
		}
		v, err := l.arg()
		return &wnode{op: "is", col: col, vals: []driver.Value{v}}, err
	case "IN":
		if err := l.expect("("); err != nil {
			return nil, err
		}
		n := &wnode{op: "in", col: col}
		for {
			if err := l.expect("?"); err != nil {
				return nil, err
			}
			v, err := l.arg()
			if err != nil {
				return nil, err
			}
			n.vals = append(n.vals, v)
			if l.peek() == "," {
				l.next()
				continue
			}
			break
		}
		return n, l.expect(")")
	default:
		return nil, fmt.Errorf("sql model: unsupported operator %q after column %q", op, col)
	}
}

// parse turns a statement into a stmtRec (without executing it).
func (d *mdb) parse(sqlText string, args []driver.Value) (*stmtRec, error) {
	st := &stmtRec{sql: sqlText, args: args, kind: "OTHER", seq: d.seqFn()}
	l := &lexer{toks: lex(sqlText), args: args}
	parseWhere := func() error {
		st.where = &wnode{op: "true"}
		if l.peekUp() == "WHERE" {
			l.next()
			w, err := l.parseOr()
			if err != nil {
				return err
			}
			st.where = w
		}
		return nil
	}
	if l.peekUp() == "EXPLAIN" {
		l.next()
		st.explain = true
	}
	switch l.peekUp() {
	case "SELECT":
		l.next()
		if l.peekUp() == "COUNT" {
			st.kind = "COUNT"
			for l.peekUp() != "FROM" && l.peek() != "" {
				l.next()
			}
		} else {
			st.kind = "SELECT"
			for l.peekUp() != "FROM" && l.peek() != "" {
				if t := l.next(); t != "," {
					st.cols = append(st.cols, t)
				}
			}
		}
		if err := l.expect("FROM"); err != nil {
			return nil, err
		}
		st.table = l.next()
		if err := parseWhere(); err != nil {
			return nil, err
		}
		if up := l.peekUp(); up != "" && up != "FOR" && up != "ORDER" && up != "LIMIT" {
			return nil, fmt.Errorf("sql model: unsupported clause %q in %q", l.peek(), sqlText)
		}
	case "INSERT":
		st.kind = "INSERT"
		l.next()
		if err := l.expect("INTO"); err != nil {
			return nil, err
		}
		st.table = l.next()
		if err := l.expect("("); err != nil {
			return nil, err
		}
		for l.peek() != ")" {
			if t := l.next(); t != "," {
				st.cols = append(st.cols, t)
			}
		}
		l.next()
		if err := l.expect("VALUES"); err != nil {
			return nil, err
		}
		for l.peek() == "(" {
			l.next()
			var tuple []driver.Value
			for l.peek() != ")" {
				if t := l.next(); t == "?" {
					v, err := l.arg()
					if err != nil {
						return nil, err
					}
					tuple = append(tuple, v)
				}
			}
			l.next()
			st.rows = append(st.rows, tuple)
			if l.peek() == "," {
				l.next()
			}
		}
		if l.peekUp() == "ON" {
			st.kind = "UPSERT"
		}
	case "UPDATE":
		st.kind = "UPDATE"
		l.next()
		st.table = l.next()
		if err := l.expect("SET"); err != nil {
			return nil, err
		}
		var tuple []driver.Value
		for l.peekUp() != "WHERE" && l.peek() != "" {
			col := l.next()
			if col == "," {
				continue
			}
			if err := l.expect("="); err != nil {
				return nil, err
			}
			if err := l.expect("?"); err != nil {
				return nil, err
			}
			v, err := l.arg()
			if err != nil {
				return nil, err
			}
			st.cols = append(st.cols, col)
			tuple = append(tuple, v)
		}
		st.rows = [][]driver.Value{tuple}
		if err := parseWhere(); err != nil {
			return nil, err
		}
	case "DELETE":
		st.kind = "DELETE"
		l.next()
		if err := l.expect("FROM"); err != nil {
			return nil, err
		}
		st.table = l.next()
		if err := parseWhere(); err != nil {
			return nil, err
		}
	}
	return st, nil
}

func (t *mtable) find(key mrow) int {
	for i, r := range t.rows {
		same := true
		for _, p := range t.primary {
			if eq, known := sqlEq(r[p], key[p]); !known || !eq {
				same = false
			}
		}
		if same {
			return i
		}
	}
	return -1
}

func copyRow(r mrow) mrow {
	c := mrow{}
	for k, v := range r {
		c[k] = v
	}
	return c
}

// exec applies a parsed statement. Writes go to the table directly (the
// harness uses transactions only around multi-row writes, which it commits).
func (d *mdb) exec(st *stmtRec) (rows []mrow, affected int64, lastID int64, err error) {
	if st.explain {
		// the plan of a statement that uses the primary key
		return []mrow{{"id": int64(1), "select_type": "SIMPLE", "table": st.table, "type": "ref", "possible_keys": "PRIMARY",
			"key": "PRIMARY", "key_len": "8", "ref": "const", "rows": int64(1), "Extra": nil}}, 0, 0, nil
	}
	if strings.Contains(strings.ToUpper(st.sql), "INFORMATION_SCHEMA") {
		// SELECT COLUMN_NAME FROM INFORMATION_SCHEMA.COLUMNS WHERE TABLE_SCHEMA = ? AND TABLE_NAME = ? ...
		name := ""
		for _, a := range st.args {
			if s, ok := a.(string); ok {
				if _, ok := d.tables[s]; ok {
					name = s
				}
			}
		}
		if t := d.tables[name]; t != nil {
			for _, c := range t.columns {
				rows = append(rows, mrow{"COLUMN_NAME": c})
			}
		}
		st.kind = "SCHEMA"
		return rows, 0, 0, nil
	}
	t := d.tables[st.table]
	if t == nil {
		return nil, 0, 0, fmt.Errorf("sql model: unknown table %q in %q", st.table, st.sql)
	}
	var before, after []mrow
	switch st.kind {
	case "SELECT", "COUNT":
		source := t.rows
		if d.isolate && d.txConn != nil && d.reader != d.txConn {
			source = d.txConn.snap[st.table]
		}
		for _, r := range source {
			if st.where.eval(r) == 1 {
				rows = append(rows, copyRow(r))
			}
		}
	case "INSERT", "UPSERT":
		for _, tuple := range st.rows {
			nr := mrow{}
			for _, c := range t.columns {
				nr[c] = nil
			}
			for i, c := range st.cols {
				nr[c] = tuple[i]
			}
			for _, p := range t.primary {
				if v, ok := nr[p].(int64); (ok && v == 0) || nr[p] == nil {
					t.autoInc++
					nr[p] = t.autoInc
				}
				if v, ok := nr[p].(int64); ok && v > t.autoInc {
					t.autoInc = v
				}
				lastID, _ = nr[p].(int64)
			}
			if i := t.find(nr); i >= 0 {
				if st.kind == "INSERT" {
					return nil, 0, 0, fmt.Errorf("Error 1062: Duplicate entry for key 'PRIMARY'")
				}
				before = append(before, copyRow(t.rows[i]))
				for _, c := range st.cols {
					t.rows[i][c] = nr[c]
				}
				after = append(after, copyRow(t.rows[i]))
				affected += 2
				continue
			}
			t.rows = append(t.rows, nr)
			before = append(before, nil)
			after = append(after, copyRow(nr))
			affected++
		}
	case "UPDATE":
		for i, r := range t.rows {
			if st.where.eval(r) == 1 {
				before = append(before, copyRow(r))
				for j, c := range st.cols {
					t.rows[i][c] = st.rows[0][j]
				}
				after = append(after, copyRow(t.rows[i]))
				affected++
			}
		}
	case "DELETE":
		var keep []mrow
		for _, r := range t.rows {
			if st.where.eval(r) == 1 {
				before = append(before, copyRow(r))
				after = append(after, nil)
				affected++
			} else {
				keep = append(keep, r)
			}
		}
		t.rows = keep
	default:
		return nil, 0, 0, fmt.Errorf("sql model: unsupported statement %q", st.sql)
	}
	st.result = rows
	if len(before) > 0 && d.afterExec != nil {
		d.afterExec(st, before, after)
	}
	return rows, affected, lastID, nil
}

// ---- database/sql driver ----

type mconnector struct{ d *mdb }

func (c mconnector) Connect(context.Context) (driver.Conn, error) { return &mconn{d: c.d}, nil }
func (c mconnector) Driver() driver.Driver                        { return mdriver{} }

type mdriver struct{}

func (mdriver) Open(string) (driver.Conn, error) { return nil, errors.New("use the connector") }

type mconn struct {
	d    *mdb
	inTx bool
	snap map[string][]mrow // table contents at BEGIN (restored by ROLLBACK)
}

func (c *mconn) begin() {
	c.inTx = true
	if c.d.isolate && c.d.txConn == nil {
		c.d.txConn = c
	}
	c.snap = map[string][]mrow{}
	for name, t := range c.d.tables {
		for _, r := range t.rows {
			c.snap[name] = append(c.snap[name], copyRow(r))
		}
	}
}

func (c *mconn) Prepare(q string) (driver.Stmt, error) { return nil, errors.New("prepare unsupported") }
func (c *mconn) Close() error                          { return nil }
func (c *mconn) Begin() (driver.Tx, error)             { c.begin(); return mtx{c}, nil }
func (c *mconn) BeginTx(ctx context.Context, _ driver.TxOptions) (driver.Tx, error) {
	c.begin()
	return mtx{c}, nil
}

type mtx struct{ c *mconn }

func (t mtx) Commit() error {
	t.c.inTx = false
	if t.c.d.txConn == t.c {
		t.c.d.txConn = nil
	}
	return nil
}
func (t mtx) Rollback() error {
	t.c.inTx = false
	if t.c.d.txConn == t.c {
		t.c.d.txConn = nil
	}
	for name, rows := range t.c.snap {
		t.c.d.tables[name].rows = rows
	}
	return nil
}

func named(args []driver.NamedValue) []driver.Value {
	out := make([]driver.Value, len(args))
	for i, a := range args {
		out[i] = a.Value
	}
	return out
}

func (c *mconn) run(ctx context.Context, q string, args []driver.NamedValue) (*stmtRec, []mrow, int64, int64, error) {
	if err := ctx.Err(); err != nil {
		return nil, nil, 0, 0, err
	}
	st, err := c.d.parse(q, named(args))
	if err != nil {
		return nil, nil, 0, 0, err
	}
	st.handle = ctx.Value(handleKey{})
	st.inTx = c.inTx
	c.d.stmts = append(c.d.stmts, st)
	if c.d.onStmt != nil {
		c.d.onStmt(st)
	}
	if c.d.failNext != nil {
		if err := c.d.failNext(st); err != nil {
			return st, nil, 0, 0, err
		}
	}
	c.d.reader = c
	rows, aff, last, err := c.d.exec(st)
	return st, rows, aff, last, err
}

func (c *mconn) QueryContext(ctx context.Context, q string, args []driver.NamedValue) (driver.Rows, error) {
	st, rows, _, _, err := c.run(ctx, q, args)
	if err != nil {
		return nil, err
	}
	if st.explain {
		return &mrows{cols: []string{"id", "select_type", "table", "type", "possible_keys", "key", "key_len", "ref", "rows", "Extra"}, rows: rows, failAt: -1}, nil
	}
	switch st.kind {
	case "COUNT":
		return &mrows{cols: []string{"COUNT(*)"}, rows: []mrow{{"COUNT(*)": int64(len(rows))}}, failAt: -1}, nil
	case "SCHEMA":
		return &mrows{cols: []string{"COLUMN_NAME"}, rows: rows, failAt: -1}, nil
	}
	res := &mrows{cols: st.cols, rows: rows, failAt: -1}
	if c.d.breakRows != nil {
		res.failAt = c.d.breakRows(st, len(rows))
	}
	return res, nil
}

func (c *mconn) ExecContext(ctx context.Context, q string, args []driver.NamedValue) (driver.Result, error) {
	_, _, aff, last, err := c.run(ctx, q, args)
	if err != nil {
		return nil, err
	}
	return mresult{aff, last}, nil
}

type mresult struct{ aff, last int64 }

func (r mresult) LastInsertId() (int64, error) { return r.last, nil }
func (r mresult) RowsAffected() (int64, error) { return r.aff, nil }

type mrows struct {
	cols   []string
	rows   []mrow
	i      int
	failAt int            // >= 0: Next fails instead of delivering row failAt (or the end of the set)
	bufs   map[int][]byte // per column: the reused read buffer for []byte values
}

// errRowStream is what a dropped connection looks like while rows stream in.
var errRowStream = errors.New("SIM-row-stream-broken: connection reset while reading rows")

func (r *mrows) Columns() []string { return r.cols }

// Close: like go-sql-driver/mysql the driver owns the memory of the []byte
// values it hands out and reuses it ("only valid until the next call to
// Next"); whoever kept a reference sees it overwritten.
func (r *mrows) Close() error {
	r.scribble()
	return nil
}

func (r *mrows) scribble() {
	for _, b := range r.bufs {
		for i := range b {
			b[i] = '#'
		}
	}
}
func (r *mrows) Next(dest []driver.Value) error {
	if r.failAt >= 0 && r.i >= r.failAt {
		return errRowStream
	}
	if r.i >= len(r.rows) {
		r.scribble()
		return io.EOF
	}
	for j, c := range r.cols {
		v := r.rows[r.i][c]
		if b, ok := v.([]byte); ok {
			if r.bufs == nil {
				r.bufs = map[int][]byte{}
			}
			r.bufs[j] = append(r.bufs[j][:0], b...)
			v = r.bufs[j]
		}
		dest[j] = v
	}
	r.i++
	return nil
}

// sortedKeys renders a row set as sorted primary keys for comparisons.
func rowIDs(rows []mrow, col string) []int64 {
	var out []int64
	for _, r := range rows {
		v, _ := r[col].(int64)
		out = append(out, v)
	}
	sort.Slice(out, func(i, j int) bool { return out[i] < out[j] })
	return out
}
