// Package h3 simulates the reactive package: rerunners, caches, resources,
// InvalidateAfter, PurgeCache and Stop (properties C04 and C08).
//
// The application modelled is a *correct* user of the package: readers call
// AddDependency on a datum's resource before reading the datum, writers
// change the datum first and invalidate (or strobe) afterwards, and a
// resource whose cleanup ran is never handed out again.
package h3

import (
	"context"
	"errors"
	"fmt"
	"sort"
	"strings"
	"sync"
	"time"

	"github.com/samsarahq/thunder/reactive"
	"simrt"
	"simrt/runner"
)

func init() {
	for _, p := range []string{"C04", "C08"} {
		runner.Register(p, runner.Scenario{Name: "reactive", Options: options, Body: func(c *runner.Ctx) { body(c, false) }})
		runner.Register(p, runner.Scenario{Name: "reactive-stall", Options: stallOptions, Body: func(c *runner.Ctx) { body(c, true) }})
		runner.Register(p, runner.Scenario{Name: "reactive-preempt", Options: func(string) simrt.Options {
			return simrt.Options{MaxSteps: 150000, RotateMaps: true, ParkPermille: 8, MapPausePermille: 200, SpawnPausePermille: 30}
		}, Body: func(c *runner.Ctx) { body(c, false) }})
	}
}

func options(tier string) simrt.Options {
	return simrt.Options{MaxSteps: 150000, RotateMaps: true}
}

func stallOptions(tier string) simrt.Options {
	return simrt.Options{MaxSteps: 150000, RotateMaps: true, StallPermille: 30, StallMax: 50 * time.Millisecond}
}

type inst struct {
	id, slot   int
	res        *reactive.Resource
	cleaned    int
	registered bool
}

type obs struct{ slot, ver, inst int }

const (
	itRead = iota
	itCache
	itAfter
	itPurge
	itPar
)

type item struct {
	kind int
	slot int
	key  string
	dur  time.Duration
	// ended: the call is made through a context derived from the computation's
	// that has already been cancelled (a helper's "defer cancel()" ran, an
	// errgroup finished): still the same computation
	ended bool
	// par: branches that run at the same time on tasks of their own, as the
	// resolvers of one query do; the run continues when all have returned
	par [][]item
}

type rerunner struct {
	j           int
	r           *reactive.Rerunner
	plan        []item
	sub         map[string][]item
	vary        bool
	inRun       int
	invocations int
	successes   int
	lastOut     []obs
	hardErr     bool
	stopCalled  bool
	stopped     bool
	retryAt     map[int]bool
	hardAt      int
	childErrAt  map[int]bool
	lastStart   uint64
	// deadlines registered with InvalidateAfter by the invocation in progress
	// and by the last successful one (simulated time)
	curAfter  []time.Duration
	lastAfter []time.Duration
	// lastCtx: the context of an invocation whose computation has been given
	// up (superseded or failed), kept by a "straggler" that may still register
	// a dependency with it; okCtx: the context of the current computation
	lastCtx context.Context
	okCtx   context.Context
	// cancelParent cancels the context the rerunner was created with
	cancelParent context.CancelFunc
}

type world struct {
	c     *runner.Ctx
	ver   []int
	cur   []*inst
	insts []*inst
	rrs   []*rerunner
	ev    chan int
	quiet bool
	// triggers counts events that legitimately cause re-runs (writes, flushes,
	// injected retry errors, InvalidateAfter registrations); abort is set when a
	// rerunner re-runs far more often than that (a re-run storm) so the run can
	// end instead of burning its step budget.
	triggers int
	abort    bool
}

func (w *world) newInst(slot int) *inst {
	in := &inst{id: len(w.insts), slot: slot, res: reactive.NewResource()}
	w.insts = append(w.insts, in)
	in.res.Cleanup(func() {
		in.cleaned++
		simrt.Logf("cleanup inst=%d slot=%d count=%d", in.id, in.slot, in.cleaned)
		if in.cleaned > 1 {
			w.c.ViolateFor("C08", "cleanup-more-than-once", "resource instance %d (slot %d) cleaned up %d times", in.id, in.slot, in.cleaned)
		}
		// a released resource is invalidated for good: never hand it out again
		// (newInst contains scheduling points, the swap itself is atomic)
		n := w.newInst(in.slot)
		if w.cur[in.slot] == in {
			w.cur[in.slot] = n
		}
	})
	return in
}

func (w *world) signal(k int) {
	select {
	case w.ev <- k:
	default:
	}
}

// read is the correct reader protocol: register the dependency, then read.
func (w *world) read(ctx context.Context, slot int) obs {
	in := w.cur[slot]
	if in.res.Invalidated() {
		// The last dependent of this instance went away, so the resource is being
		// released; its Cleanup may still be pending (a release walks through the
		// invalidation handlers of other rerunners first, and those may sit out
		// their minimum re-run interval). Like reactive's own cache, which drops
		// invalidated entries before reuse, the application does not hand out a
		// resource it can see is invalidated.
		w.c.Probe("read-finds-invalidated-instance")
		n := w.newInst(slot)
		if w.cur[slot] == in {
			w.cur[slot] = n
		}
		in = w.cur[slot]
	}
	in.registered = true
	simrt.Logf("read slot=%d inst=%d", slot, in.id)
	reactive.AddDependency(ctx, in.res, nil)
	w.signal(2)
	simrt.Yield()
	return obs{slot, w.ver[slot], in.id}
}

func (w *world) exec(ctx context.Context, r *rerunner, plan []item, inv int, depth int) ([]obs, error) {
	var out []obs
	for i, it := range plan {
		if r.vary && (inv+i+depth)%3 == 0 {
			continue
		}
		switch it.kind {
		case itRead:
			rctx := ctx
			if it.ended {
				w.c.Probe("dependency-through-ended-derived-context")
				var cancel context.CancelFunc
				rctx, cancel = context.WithCancel(ctx)
				cancel()
			}
			out = append(out, w.read(rctx, it.slot))
		case itCache:
			key := it.key
			cctx := ctx
			if it.ended {
				var cancel context.CancelFunc
				cctx, cancel = context.WithCancel(ctx)
				cancel()
			}
			nAfter := len(r.curAfter)
			v, err := reactive.Cache(cctx, key, func(ctx context.Context) (interface{}, error) {
				w.c.Probe("cache-miss")
				o, err := w.exec(ctx, r, r.sub[key], inv, depth+1)
				if err == nil && r.childErrAt[inv] {
					w.triggers++
					w.c.Fault("cached-child-retry-error")
					return nil, reactive.RetrySentinelError
				}
				return o, err
			})
			if err != nil && it.ended && ctx.Err() == nil && errors.Is(err, context.Canceled) {
				// the look-up through the ended context was refused: the caller
				// carries on without that value
				w.c.Probe("cache-lookup-through-ended-context-refused")
				// whatever a child that started and then failed had registered went
				// away with it
				r.curAfter = r.curAfter[:nAfter]
				continue
			}
			if err != nil {
				return nil, err
			}
			out = append(out, v.([]obs)...)
		case itAfter:
			w.triggers++
			w.c.Probe("invalidate-after")
			d := it.dur
			if d < time.Second && inv > 2 {
				// zero, negative and tiny durations only in the first invocations:
				// every one of them causes the next re-run by itself
				d = 20 * time.Second
			}
			if d < time.Second {
				w.c.Probe("invalidate-after-short")
			}
			r.curAfter = append(r.curAfter, simrt.Now()+d)
			reactive.InvalidateAfter(ctx, d)
		case itPurge:
			w.c.Probe("purge-cache")
			reactive.PurgeCache(ctx)
		case itPar:
			w.c.Probe("parallel-branches")
			res := make([][]obs, len(it.par))
			errs := make([]error, len(it.par))
			var wg sync.WaitGroup
			for bi := range it.par {
				bi := bi
				wg.Add(1)
				go func() {
					defer wg.Done()
					res[bi], errs[bi] = w.exec(ctx, r, it.par[bi], inv, depth+1)
				}()
			}
			wg.Wait()
			for bi := range it.par {
				if errs[bi] != nil {
					return nil, errs[bi]
				}
				out = append(out, res[bi]...)
			}
		}
	}
	return out, nil
}

func (w *world) compute(r *rerunner) reactive.ComputeFunc {
	return func(ctx context.Context) (interface{}, error) {
		r.invocations++
		inv := r.invocations
		r.curAfter = nil
		r.inRun++
		r.lastStart = simrt.Seq()
		simrt.Logf("run start rr=%d inv=%d", r.j, inv)
		if r.inRun > 1 {
			w.c.ViolateFor("C04", "overlapping-runs", "rerunner %d: invocation %d started while another is in progress", r.j, inv)
		}
		if r.stopped {
			w.c.ViolateFor("C04", "run-after-stop", "rerunner %d: invocation %d started after Stop returned", r.j, inv)
		}
		if inv > 1 {
			w.c.NonTrivial()
		}
		// A re-run storm: far more invocations than events that can cause a
		// re-run. The scheduler is fair (bounded starvation), so spinning
		// while another task finishes a release is bounded; the bound below is
		// far above it.
		if inv > 150+25*w.triggers && !w.abort {
			w.abort = true
			w.c.Probe("rerun-storm")
			w.c.ViolateFor("C08", "rerun-storm", "rerunner %d reached invocation %d after only %d events that can cause a re-run (writes, flushes, injected retries, InvalidateAfter registrations): it keeps re-running, as when an invalidated cached value keeps being reused", r.j, inv, w.triggers)
		}
		w.signal(1)
		out, err := w.exec(ctx, r, r.plan, inv, 0)
		r.inRun--
		if err != nil {
			simrt.Logf("run end rr=%d inv=%d err=%v", r.j, inv, err)
			if err != reactive.RetrySentinelError {
				r.hardErr = true
			}
			return nil, err
		}
		if len(out) > 0 && (r.retryAt[inv] || r.hardAt == inv || w.c.Choose(8, "parallel-straggler") == 1) {
			// a parallel branch of this run (one of several resolvers working at
			// the same time) registers a dependency it already has again while
			// the run is returning - possibly with an error, so that the
			// computation is being released at that very moment
			in := w.insts[out[w.c.Choose(len(out), "straggler-inst")].inst]
			hops := w.c.Choose(4, "straggler-hops")
			w.c.Probe("parallel-branch-still-registering")
			go func() {
				for i := 0; i < hops; i++ {
					simrt.Yield()
				}
				reactive.AddDependency(ctx, in.res, nil)
			}()
		}
		if r.retryAt[inv] {
			w.triggers++
			w.c.Fault("compute-retry-error")
			simrt.Logf("run end rr=%d inv=%d retry", r.j, inv)
			r.lastCtx = ctx
			return nil, reactive.RetrySentinelError
		}
		if r.hardAt == inv {
			w.c.Fault("compute-hard-error")
			r.hardErr = true
			simrt.Logf("run end rr=%d inv=%d hard error", r.j, inv)
			r.lastCtx = ctx // the computation of a failed run is released
			return nil, errors.New("hard failure")
		}
		r.lastOut = out
		// the computation this one supersedes is released: its context is what
		// a straggler may still hold
		r.lastCtx, r.okCtx = r.okCtx, ctx
		r.lastAfter = r.curAfter
		r.successes++
		simrt.Logf("run end rr=%d inv=%d ok out=%v", r.j, inv, out)
		w.signal(3)
		return out, nil
	}
}

// genPlan draws a plan. Cache keys form a DAG: the sub-plan of key i may only
// use keys with a larger index (a key that needs itself would self-deadlock
// on the per-key lock, which is an application error, not thunder's).
func (w *world) genPlan(c *runner.Ctx, nSlots int, minKey int, r *rerunner) []item {
	n := 1 + c.Choose(4, "plan-len")
	var plan []item
	for i := 0; i < n; i++ {
		k := c.Choose(11, "plan-item")
		switch {
		case k == 10:
			// two or three branches of reads and cached look-ups side by side
			var par [][]item
			for b := 2 + c.Choose(2, "branches"); b > 0; b-- {
				var br []item
				for m := 1 + c.Choose(2, "branch-len"); m > 0; m-- {
					if minKey < 3 && c.Choose(2, "branch-item") == 1 {
						ki := minKey + c.Choose(3-minKey, "key")
						key := fmt.Sprintf("k%d", ki)
						if _, ok := r.sub[key]; !ok {
							r.sub[key] = w.genPlan(c, nSlots, ki+1, r)
						}
						br = append(br, item{kind: itCache, key: key})
					} else {
						br = append(br, item{kind: itRead, slot: c.Choose(nSlots, "slot")})
					}
				}
				par = append(par, br)
			}
			plan = append(plan, item{kind: itPar, par: par})
		case k < 5 || (k < 8 && minKey >= 3):
			plan = append(plan, item{kind: itRead, slot: c.Choose(nSlots, "slot"), ended: c.Choose(8, "ended-ctx") == 1})
		case k < 8:
			ki := minKey + c.Choose(3-minKey, "key")
			key := fmt.Sprintf("k%d", ki)
			if _, ok := r.sub[key]; !ok {
				r.sub[key] = w.genPlan(c, nSlots, ki+1, r)
			}
			plan = append(plan, item{kind: itCache, key: key, ended: c.Choose(8, "ended-ctx") == 1})
		case k == 8:
			plan = append(plan, item{kind: itAfter, dur: []time.Duration{2 * time.Second, 20 * time.Second, 90 * time.Second, 0, -time.Second, time.Millisecond}[c.Choose(6, "after-dur")]})
		default:
			plan = append(plan, item{kind: itPurge})
		}
	}
	return plan
}

func planString(p []item, sub map[string][]item, seen map[string]bool) string {
	var parts []string
	for _, it := range p {
		switch it.kind {
		case itRead:
			parts = append(parts, fmt.Sprintf("r%d%s", it.slot, map[bool]string{true: "~"}[it.ended]))
		case itCache:
			if it.ended {
				parts = append(parts, "~")
			}
			if seen[it.key] {
				parts = append(parts, it.key)
			} else {
				seen[it.key] = true
				parts = append(parts, it.key+"("+planString(sub[it.key], sub, seen)+")")
			}
		case itAfter:
			parts = append(parts, "after"+it.dur.String())
		case itPurge:
			parts = append(parts, "purge")
		case itPar:
			var bs []string
			for _, br := range it.par {
				bs = append(bs, planString(br, sub, seen))
			}
			parts = append(parts, "par["+strings.Join(bs, " | ")+"]")
		}
	}
	return strings.Join(parts, " ")
}

func body(c *runner.Ctx, slow bool) {
	w := &world{c: c, ev: make(chan int, 1)}
	faulty := c.Choose(2, "class") == 1
	c.Class = "fault-free"
	if faulty {
		c.Class = "faulty"
	}
	if slow {
		c.Class += "+stall"
	}
	nSlots := 2 + c.Choose(4, "slots")
	w.ver = make([]int, nSlots)
	w.cur = make([]*inst, nSlots)
	for s := 0; s < nSlots; s++ {
		w.cur[s] = w.newInst(s)
	}
	reactive.WriteThenReadDelay = []time.Duration{200 * time.Millisecond, 0}[c.Choose(2, "wtr-delay")]
	nR := 1 + c.Choose(3, "rerunners")
	ctx, cancelAll := context.WithCancel(context.Background())
	defer cancelAll()
	for j := 0; j < nR; j++ {
		r := &rerunner{j: j, sub: map[string][]item{}, retryAt: map[int]bool{}, childErrAt: map[int]bool{}}
		r.plan = w.genPlan(c, nSlots, 0, r)
		r.vary = c.Choose(3, "vary") == 1
		if faulty {
			for k := c.Choose(3, "retries"); k > 0; k-- {
				r.retryAt[1+c.Choose(5, "retry-at")] = true
			}
			if c.Choose(6, "child-err") == 1 {
				r.childErrAt[1+c.Choose(4, "child-err-at")] = true
			}
			if c.Choose(8, "hard") == 1 {
				r.hardAt = 2 + c.Choose(4, "hard-at")
			}
		}
		w.rrs = append(w.rrs, r)
	}
	for _, r := range w.rrs {
		spawn := c.Choose(2, "always-spawn") == 1
		interval := []time.Duration{10 * time.Millisecond, 0, 5 * time.Second}[c.Choose(3, "min-interval")]
		c.Describe("rerunner %d: plan=[%s] vary=%v alwaysSpawn=%v minInterval=%v retryAt=%v hardAt=%d", r.j, planString(r.plan, r.sub, map[string]bool{}), r.vary, spawn, interval, keys(r.retryAt), r.hardAt)
		pctx, cancelParent := context.WithCancel(ctx)
		r.cancelParent = cancelParent
		r.r = reactive.NewRerunner(pctx, w.compute(r), interval, spawn)
	}

	// the environment: "other servers" writing data, flushes and a Stop at an arbitrary point
	nWrites := 3 + c.Choose(10, "writes")
	stopWho, stopAt := -1, -1
	if c.Choose(3, "stop") == 1 {
		stopWho, stopAt = c.Choose(nR, "stop-who"), c.Choose(nWrites, "stop-at")
	}
	var desc []string
	for k := 0; k < nWrites; k++ {
		if k == stopAt {
			r := w.rrs[stopWho]
			desc = append(desc, fmt.Sprintf("stop(rr%d)", r.j))
			how := c.Choose(3, "stop-how")
			go func() {
				w.wait(c)
				r.stopCalled = true
				simrt.Logf("Stop called rr=%d how=%d", r.j, how)
				c.Fault("stop-in-window")
				switch how {
				case 1:
					// the context the rerunner was created with ends first (its
					// connection went away), then Stop is called
					c.Probe("parent-context-cancelled-before-stop")
					r.cancelParent()
					simrt.Yield()
				case 2:
					// two callers stop it at the same time
					c.Probe("concurrent-second-stop")
					go func() {
						r.r.Stop()
						if r.inRun > 0 {
							c.ViolateFor("C04", "stop-returned-during-run", "rerunner %d: a second, concurrent Stop returned while an invocation is in progress", r.j)
						}
					}()
				}
				r.r.Stop()
				r.stopped = true
				simrt.Logf("Stop returned rr=%d", r.j)
				if r.inRun > 0 {
					c.ViolateFor("C04", "stop-returned-during-run", "rerunner %d: Stop returned while an invocation is in progress", r.j)
				}
			}()
		}
		mode := w.wait(c)
		w.triggers += 2
		slot := c.Choose(nSlots, "write-slot")
		switch c.Choose(6, "foreign-reader") {
		case 1:
			// somebody outside any computation touches the datum's resource
			// (AddDependency with a context that has no rerunner)
			c.Probe("dependency-registered-without-rerunner")
			res := w.cur[slot].res
			go reactive.AddDependency(context.Background(), res, nil) // (never from the main task: it must not block on the package)
		case 2:
			// a straggler of an earlier invocation registers a dependency with
			// that invocation's context, long after the run returned
			if rr := w.rrs[c.Choose(nR, "straggler-of")]; rr.lastCtx != nil {
				c.Probe("dependency-registered-by-a-straggler")
				sctx, res := rr.lastCtx, w.cur[slot].res
				go reactive.AddDependency(sctx, res, nil)
			}
		}
		if c.Choose(8, "flush") == 1 {
			w.rrs[c.Choose(nR, "flush-who")].r.RerunImmediately()
			desc = append(desc, "flush")
		}
		w.ver[slot]++
		if c.Choose(2, "strobe") == 1 {
			simrt.Logf("write slot=%d ver=%d strobe inst=%d", slot, w.ver[slot], w.cur[slot].id)
			w.cur[slot].res.Strobe()
			desc = append(desc, fmt.Sprintf("%s:strobe(%d)", mode, slot))
		} else {
			n := w.newInst(slot) // contains scheduling points
			old := w.cur[slot]
			w.cur[slot] = n // atomic swap
			simrt.Logf("write slot=%d ver=%d invalidate inst=%d", slot, w.ver[slot], old.id)
			old.res.Invalidate()
			desc = append(desc, fmt.Sprintf("%s:inval(%d)", mode, slot))
		}
		if mode == "window" {
			c.Fault("invalidate-in-window")
		}
	}
	c.Describe("env: %s", strings.Join(desc, " "))
	w.quiet = true

	// quiescence: longer than min-interval + write-then-read delay + capped retry back-off
	w.settle(5 * time.Minute)
	if w.abort {
		return
	}
	simrt.Logf("quiescence check")
	w.checkFresh(c)
	w.checkCleanupLive(c)
	// Nothing is going on any more. A reader outside any computation now
	// touches a resource that a settled rerunner depends on: that must not
	// take the resource away from it.
	for _, r := range w.rrs {
		if !r.live() || r.successes == 0 || len(r.lastOut) == 0 || strings.Contains(planString(r.plan, r.sub, map[string]bool{}), "after") {
			continue // (a plan with InvalidateAfter never settles)
		}
		in := w.insts[r.lastOut[0].inst]
		if in.cleaned != 0 || w.cur[in.slot] != in {
			continue
		}
		c.Probe("foreign-reader-at-quiescence")
		go reactive.AddDependency(context.Background(), in.res, nil)
		simrt.Sleep(10 * time.Second)
		if in.cleaned != 0 {
			c.ViolateFor("C08", "cleaned-by-a-foreign-reader", "resource instance %d (slot %d), in use by the settled rerunner %d, was cleaned up after AddDependency was called on it with a context that has no rerunner", in.id, in.slot, r.j)
		}
		break
	}

	// stop everything; every registered resource must be cleaned exactly once.
	// Stop is called from helper tasks: the main task never waits unboundedly
	// on the system under test.
	for _, r := range w.rrs {
		if !r.stopCalled {
			r := r
			r.stopCalled = true
			go func() {
				r.r.Stop()
				r.stopped = true
				if r.inRun > 0 {
					c.ViolateFor("C04", "stop-returned-during-run", "rerunner %d: Stop returned while an invocation is in progress", r.j)
				}
			}()
		}
	}
	w.settle(10 * time.Second)
	fired := simrt.TimerFirings("InvalidateAfter")
	simrt.Sleep(3 * time.Minute)
	for _, r := range w.rrs {
		if !r.stopped {
			c.ViolateFor("C04", "stop-never-returned", "rerunner %d: Stop did not return within the horizon", r.j)
		}
	}
	if after := simrt.TimerFirings("InvalidateAfter"); after != fired {
		c.ViolateFor("C08", "timer-not-stopped", "%d InvalidateAfter timers fired after every rerunner was stopped and released", after-fired)
	}
	for _, in := range w.insts {
		if in.registered && in.cleaned != 1 {
			c.ViolateFor("C08", fmt.Sprintf("cleanup-count-after-stop/%d", min(in.cleaned, 2)), "resource instance %d (slot %d) cleaned up %d times after all rerunners stopped (want exactly 1)", in.id, in.slot, in.cleaned)
		}
	}
	for _, t := range simrt.Alive() {
		if strings.HasPrefix(t.Name, "reactive.") {
			c.ViolateFor("C04,C08", "task-left-behind/"+t.Name, "task %s still alive (%s %s) 3 minutes after every rerunner was stopped", t.Name, t.State, t.On)
		}
	}
}

func keys(m map[int]bool) []int {
	var out []int
	for k := range m {
		out = append(out, k)
	}
	sort.Ints(out)
	return out
}

// wait lets the environment pick when to act: after a random sleep, right
// after the computation signalled one of the windows the property names, or
// immediately.
func (w *world) wait(c *runner.Ctx) string {
	switch c.Choose(3, "env-wait") {
	case 1:
		d := time.Duration(c.Choose(16, "env-sleep")) * 25 * time.Millisecond
		simrt.Sleep(d)
		return "sleep"
	case 2:
		t := time.NewTimer(400 * time.Millisecond)
		select {
		case <-w.ev:
			t.Stop()
			return "window"
		case <-t.C:
			return "timeout"
		}
	}
	simrt.Yield()
	return "now"
}

// settle lets simulated time pass and then waits until no reactive task is
// runnable (timers may still be pending).
func (w *world) settle(d time.Duration) {
	for ; d > 0 && !w.abort; d -= 5 * time.Second {
		simrt.Sleep(min(d, 5*time.Second))
	}
	for i := 0; i < 200 && !w.abort; i++ {
		busy := false
		for _, r := range w.rrs {
			if r.inRun > 0 {
				busy = true
			}
		}
		for _, t := range simrt.Alive() {
			if strings.HasPrefix(t.Name, "reactive.") && (t.State == "ready" || t.State == "waiting" || t.On == "sleep") {
				busy = true
			}
		}
		if !busy {
			return
		}
		simrt.Sleep(37 * time.Millisecond)
	}
}

func (r *rerunner) live() bool { return !r.stopCalled && !r.hardErr }

func (w *world) checkFresh(c *runner.Ctx) {
	for _, r := range w.rrs {
		if !r.live() {
			continue
		}
		if r.successes == 0 {
			c.ViolateFor("C04", "never-ran", "rerunner %d has no successful run at quiescence (invocations=%d)", r.j, r.invocations)
			continue
		}
		for _, dl := range r.lastAfter {
			// an InvalidateAfter deadline of the current computation has passed long
			// ago (more than min-interval + delay + the capped retry back-off): the
			// timer's invalidation was lost
			if simrt.Now()-dl > 90*time.Second {
				c.ViolateFor("C04,C08", "expired-invalidate-after-not-rerun", "rerunner %d: its last successful run (invocation count %d) registered an InvalidateAfter deadline at t=%v, it is now t=%v and the computation was not re-run", r.j, r.invocations, dl, simrt.Now())
				break
			}
		}
		for _, o := range r.lastOut {
			if o.ver != w.ver[o.slot] {
				key := "stale-at-quiescence"
				if c.Prop == "C08" {
					key = "superseded-value-in-final-output"
				}
				c.Violate(key, "rerunner %d: last successful run (invocation count %d) observed slot %d at version %d (resource instance %d) but the current version is %d: an invalidation was lost or a superseded cached value was reused",
					r.j, r.invocations, o.slot, o.ver, o.inst, w.ver[o.slot])
			}
		}
	}
}

// checkCleanupLive: at quiescence resources the current computations depend
// on must not have been cleaned; every other registered resource exactly once.
//
// A plan with InvalidateAfter keeps re-running for ever, and a release can sit
// inside another rerunner's invalidation handler for that rerunner's minimum
// interval, so at any instant an instance may be "cleaned but still named by
// the last output" (its computation is already invalidated, the re-run is
// pending) or "unused but not cleaned yet". Only an instance that is still in
// that state 95 simulated seconds later - longer than every delay a pending
// re-run or release can have - is reported.
func (w *world) checkCleanupLive(c *runner.Ctx) {
	first := w.cleanupOffenders()
	if len(first) == 0 {
		return
	}
	c.Probe("cleanup-state-rechecked")
	simrt.Sleep(95 * time.Second)
	second := w.cleanupOffenders()
	for id, kind := range first {
		if second[id] != kind {
			continue
		}
		in := w.insts[id]
		if kind == "in-use" {
			c.ViolateFor("C08", "cleaned-while-in-use", "resource instance %d (slot %d) was cleaned up although a current computation depends on it (and still does 95 s later)", in.id, in.slot)
		} else {
			c.ViolateFor("C08", fmt.Sprintf("cleanup-count-at-quiescence/%d", min(in.cleaned, 2)), "resource instance %d (slot %d) is no longer used by any current computation but was cleaned up %d times (want 1)", in.id, in.slot, in.cleaned)
		}
	}
}

// cleanupOffenders lists the instances whose cleanup count does not fit their
// use right now: "in-use" (held by a current computation, yet cleaned) or
// "unused" (held by none, cleaned != once).
func (w *world) cleanupOffenders() map[int]string {
	// held: in the dependency set of a live rerunner's current computation.
	// limbo: only held by the leftover computation of a rerunner that ended
	// with a hard error and was not stopped yet. Such a computation may have
	// been invalidated by a release racing with its registration (release
	// implies invalidate, the re-run then failed), so its resources may or may
	// not have been cleaned already; exactly-once is re-checked after Stop.
	held, limbo := map[int]bool{}, map[int]bool{}
	for _, r := range w.rrs {
		if r.stopCalled {
			continue
		}
		for _, o := range r.lastOut {
			if r.hardErr {
				limbo[o.inst] = true
			} else {
				held[o.inst] = true
			}
		}
	}
	out := map[int]string{}
	for _, in := range w.insts {
		if !in.registered {
			continue
		}
		switch {
		case !held[in.id] && limbo[in.id]:
		case held[in.id] && in.cleaned != 0:
			out[in.id] = "in-use"
		case !held[in.id] && in.cleaned != 1:
			out[in.id] = "unused"
		}
	}
	return out
}
