package h4

import (
	"context"
	"fmt"
	"strings"
	"time"

	"github.com/samsarahq/thunder/concurrencylimiter"
	"simrt"
	"simrt/runner"
)

func init() {
	runner.Register("C20", runner.Scenario{Name: "limiter", Options: func(string) simrt.Options {
		return simrt.Options{MaxSteps: 400000}
	}, Body: limiterBody})
	runner.Register("C20", runner.Scenario{Name: "limiter-stall", Options: func(string) simrt.Options {
		return simrt.Options{MaxSteps: 400000, StallPermille: 40, StallMax: 3 * time.Millisecond}
	}, Body: limiterBody})
	runner.Register("C20", runner.Scenario{Name: "limiter-preempt", Options: func(string) simrt.Options {
		return simrt.Options{MaxSteps: 400000, ParkPermille: 15, MapPausePermille: 200, SpawnPausePermille: 30}
	}, Body: limiterBody})
}

// monitor counts holders as the property defines them: from the return of
// Acquire until the first release call begins, minus the time from the start
// of the function passed to TemporarilyRelease until TemporarilyRelease
// returns (the re-acquire happens after the function returned).
type monitor struct {
	c     *runner.Ctx
	n     int
	count int
	max   int
}

func (m *monitor) inc(who string) {
	m.count++
	if m.count > m.max {
		m.max = m.count
	}
	simrt.Logf("holders=%d (+%s)", m.count, who)
	if m.count > m.n {
		m.c.Violate("more-than-limit", "%d goroutines are between Acquire and release (limit %d) after %s", m.count, m.n, who)
	}
	if m.count >= 2 {
		m.c.NonTrivial()
	}
}

func (m *monitor) dec(who string) {
	m.count--
	simrt.Logf("holders=%d (-%s)", m.count, who)
}

type holderState struct {
	held     bool // counted by the monitor right now
	real     bool // Acquire handed out a token
	released bool
	inTR     int
}

func limiterBody(c *runner.Ctx) {
	n := 1 + c.Choose(3, "limit")
	m := &monitor{c: c, n: n}
	base, cancelBase := context.WithCancel(context.Background())
	defer cancelBase()
	lctx := concurrencylimiter.With(base, n)
	nTasks := 2 + c.Choose(7, "tasks")
	c.Describe("limit=%d tasks=%d", n, nTasks)
	finished := 0
	stuckWhere := make([]string, nTasks)
	for k := 0; k < nTasks; k++ {
		k := k
		nOps := 1 + c.Choose(5, "ops")
		script := make([]int, nOps)
		for i := range script {
			script[i] = c.Choose(11, "op")
		}
		startDelay := time.Duration(c.Choose(4, "start-delay")) * time.Millisecond
		withCancel := c.Biased(3, 700, "task-cancel")
		finalRelease := c.Choose(2, "final-release") == 0
		c.Describe("task%d: +%v ops=%v cancel=%d", k, startDelay, script, withCancel)
		go func() {
			who := fmt.Sprintf("task%d", k)
			simrt.Sleep(startDelay)
			ctx, cancel := context.WithCancel(lctx)
			defer cancel()
			if withCancel == 1 {
				// cancelled before Acquire: must not block even if all tokens are taken
				c.Fault("ctx-cancel-before-acquire")
				cancel()
			} else if withCancel == 2 {
				d := time.Duration(c.Choose(5, "cancel-delay")) * time.Millisecond
				go func() {
					simrt.Sleep(d)
					c.Fault("ctx-cancel-during")
					cancel()
				}()
			}
			stuckWhere[k] = "Acquire"
			simrt.Logf("%s Acquire call", who)
			hctx, release := concurrencylimiter.Acquire(ctx)
			h := &holderState{real: hctx != ctx}
			simrt.Logf("%s Acquire returned real=%v", who, h.real)
			if h.real {
				h.held = true
				m.inc(who + " Acquire")
			} else {
				c.Probe("acquire-without-token")
			}
			doRelease := func(tag string) {
				if h.held {
					h.held = false
					m.dec(who + " " + tag)
				}
				h.released = true
				stuckWhere[k] = "release"
				simrt.Logf("%s release() call (%s)", who, tag)
				release()
				simrt.Logf("%s release() returned (%s)", who, tag)
			}
			for _, op := range script {
				switch op {
				case 0, 1:
					stuckWhere[k] = "work"
					simrt.Sleep(time.Duration(1+c.Choose(3, "work")) * time.Millisecond)
				case 2:
					simrt.Yield()
				case 3: // temporarily release around some blocking work
					stuckWhere[k] = "TemporarilyRelease"
					c.Probe("temporarily-release")
					concurrencylimiter.TemporarilyRelease(hctx, func() {
						wasHeld := h.held
						if wasHeld {
							h.held = false
							m.dec(who + " TR-start")
						}
						h.inTR++
						simrt.Sleep(time.Duration(c.Choose(3, "tr-work")) * time.Millisecond)
						h.inTR--
					})
					if h.real && !h.released && !h.held {
						h.held = true
						m.inc(who + " TR-return")
					}
				case 4: // release from inside a temporary release
					stuckWhere[k] = "TemporarilyRelease+release"
					c.Probe("release-during-temporary-release")
					concurrencylimiter.TemporarilyRelease(hctx, func() {
						if h.held {
							h.held = false
							m.dec(who + " TR-start")
						}
						simrt.Yield()
						doRelease("release-in-TR")
						simrt.Yield()
					})
				case 5: // nested temporary release
					stuckWhere[k] = "nested TemporarilyRelease"
					c.Probe("nested-temporary-release")
					concurrencylimiter.TemporarilyRelease(hctx, func() {
						if h.held {
							h.held = false
							m.dec(who + " TR-start")
						}
						concurrencylimiter.TemporarilyRelease(hctx, func() {
							simrt.Sleep(time.Millisecond)
						})
						simrt.Yield()
					})
					if h.real && !h.released && !h.held {
						h.held = true
						m.inc(who + " TR-return")
					}
				case 6: // early / repeated release
					c.Probe("early-release")
					doRelease("release")
					doRelease("release-again")
				case 8: // another goroutine releases while the owner is inside (or leaving) a temporary release
					stuckWhere[k] = "TemporarilyRelease+concurrent release"
					c.Probe("concurrent-release-during-temporary-release")
					d := time.Duration(c.Choose(3, "helper-delay")) * time.Millisecond
					helperDone := false
					go func() {
						simrt.Sleep(d)
						doRelease("release-by-helper")
						helperDone = true
					}()
					concurrencylimiter.TemporarilyRelease(hctx, func() {
						if h.held {
							h.held = false
							m.dec(who + " TR-start")
						}
						simrt.Sleep(time.Millisecond)
					})
					if h.real && !h.released && !h.held {
						h.held = true
						m.inc(who + " TR-return")
					}
					for !helperDone {
						simrt.Sleep(time.Millisecond)
					}
				case 9: // the function run under a temporary release panics; the caller recovers and carries on
					stuckWhere[k] = "TemporarilyRelease+panic"
					c.Probe("panic-during-temporary-release")
					func() {
						defer func() {
							if p := recover(); p == nil {
								c.Violate("panic-swallowed", "a panic inside TemporarilyRelease did not reach the caller")
							}
						}()
						concurrencylimiter.TemporarilyRelease(hctx, func() {
							if h.held {
								h.held = false
								m.dec(who + " TR-start")
							}
							simrt.Sleep(time.Duration(c.Choose(3, "tr-work")) * time.Millisecond)
							panic("boom in temporarily released section")
						})
					}()
					if h.real && !h.released && !h.held {
						h.held = true
						m.inc(who + " TR-return after panic")
					}
				case 10: // fan out: children acquire on the holder's context while the parent waits under a temporary release
					stuckWhere[k] = "fan-out"
					c.Probe("acquire-on-a-holders-context")
					nKids := 1 + c.Choose(3, "children")
					kidsDone := 0
					for j := 0; j < nKids; j++ {
						kid := fmt.Sprintf("%s.child%d", who, j)
						work := time.Duration(1+c.Choose(3, "child-work")) * time.Millisecond
						go func() {
							defer func() { kidsDone++ }()
							cctx, crel := concurrencylimiter.Acquire(hctx)
							real := cctx != hctx
							if real {
								m.inc(kid + " Acquire")
							}
							simrt.Sleep(work)
							if real {
								m.dec(kid + " release")
							}
							crel()
						}()
					}
					concurrencylimiter.TemporarilyRelease(hctx, func() {
						if h.held {
							h.held = false
							m.dec(who + " TR-start")
						}
						for i := 0; kidsDone < nKids && i < 20000; i++ {
							simrt.Sleep(time.Millisecond)
						}
					})
					if h.real && !h.released && !h.held {
						h.held = true
						m.inc(who + " TR-return")
					}
				case 7: // temporary release on a context without holder, Acquire on a context without limiter
					stuckWhere[k] = "no-limiter ops"
					ran := false
					concurrencylimiter.TemporarilyRelease(base, func() { ran = true })
					if !ran {
						c.Violate("temporarily-release-skipped-function", "TemporarilyRelease on a context without holder did not run its function")
					}
					nctx, nrel := concurrencylimiter.Acquire(base)
					if nctx != base {
						c.Violate("acquire-without-limiter", "Acquire on a context without limiter returned a new context")
					}
					nrel()
					nrel()
				}
			}
			// a correct program releases once; calling release again is allowed
			if finalRelease || !h.released {
				doRelease("final release")
			}
			stuckWhere[k] = ""
			finished++
		}()
	}
	simrt.Sleep(30 * time.Second)
	if finished != nTasks {
		var s []string
		for k, wv := range stuckWhere {
			if wv != "" {
				s = append(s, fmt.Sprintf("task%d in %s", k, wv))
			}
		}
		c.Violate("task-stuck", "%d of %d tasks did not finish within 30 simulated seconds: %s", nTasks-finished, nTasks, strings.Join(s, ", "))
		return
	}
	// all holders released: the full capacity must be available again
	got := 0
	var rels []concurrencylimiter.ReleaseFunc
	probeCtx, probeCancel := context.WithCancel(lctx)
	go func() {
		for i := 0; i < n; i++ {
			hctx, rel := concurrencylimiter.Acquire(probeCtx)
			if hctx == probeCtx {
				return
			}
			got++
			rels = append(rels, rel)
		}
	}()
	simrt.Sleep(time.Second)
	if got != n {
		c.Violate("token-lost", "after every holder released only %d of %d tokens can be acquired", got, n)
	}
	// and not more than the capacity
	extra := false
	go func() {
		hctx, rel := concurrencylimiter.Acquire(probeCtx)
		if hctx != probeCtx {
			extra = true
			rel()
		}
	}()
	simrt.Sleep(time.Second)
	if extra && got == n {
		c.Violate("token-invented", "with all %d tokens held a further Acquire succeeded", n)
	}
	// with every token held, Acquire on a cancelled context and on a context
	// without limiter must still return
	if got == n {
		cancelledDone, noLimiterDone := false, false
		go func() {
			cctx, ccancel := context.WithCancel(lctx)
			ccancel()
			_, rel := concurrencylimiter.Acquire(cctx)
			rel()
			cancelledDone = true
		}()
		go func() {
			_, rel := concurrencylimiter.Acquire(base)
			rel()
			noLimiterDone = true
		}()
		simrt.Sleep(time.Second)
		// ... and an Acquire that is already queued must return once its context is cancelled
		queuedDone, queuedReal := false, false
		qctx, qcancel := context.WithCancel(lctx)
		go func() {
			hctx, rel := concurrencylimiter.Acquire(qctx)
			queuedReal = hctx != qctx
			rel()
			queuedDone = true
		}()
		simrt.Sleep(10 * time.Millisecond)
		c.Fault("ctx-cancel-while-queued")
		qcancel()
		simrt.Sleep(time.Second)
		if !queuedDone {
			c.Violate("acquire-blocked-after-cancellation", "with all %d tokens held, an Acquire whose context was cancelled while it was queued did not return within a simulated second", n)
		} else if queuedReal {
			c.Violate("token-invented", "with all %d tokens held a queued Acquire obtained a token", n)
		}
		if !cancelledDone {
			c.Violate("acquire-blocked-on-cancelled-context", "with all %d tokens held, Acquire on an already cancelled context did not return within a simulated second", n)
		}
		if !noLimiterDone {
			c.Violate("acquire-blocked-without-limiter", "with all %d tokens held, Acquire on a context without limiter did not return within a simulated second", n)
		}
	}
	// a holder that is released while it is temporarily released needs no
	// token any more: its TemporarilyRelease returns even though the limiter is
	// saturated by others (who may be waiting for exactly that goroutine)
	if got == n {
		if !callBounded(rels[0]) { // make room for one more holder
			c.Violate("release-blocked", "release() of a held token did not return within a simulated second")
			return
		}
		// (acquired by a helper: the main task never waits unboundedly on the limiter)
		var hctx context.Context
		var hrel concurrencylimiter.ReleaseFunc
		acquired := false
		go func() {
			hctx, hrel = concurrencylimiter.Acquire(probeCtx)
			acquired = true
		}()
		for i := 0; !acquired && i < 2000; i++ {
			simrt.Sleep(time.Millisecond)
		}
		if !acquired {
			c.Violate("token-lost", "a token was released but a following Acquire did not get it within two simulated seconds")
		} else if hctx != probeCtx {
			started, refilled, returned := false, false, false
			go func() {
				concurrencylimiter.TemporarilyRelease(hctx, func() {
					started = true
					for i := 0; !refilled && i < 5000; i++ {
						simrt.Sleep(time.Millisecond)
					}
					hrel() // released during its own temporary release
				})
				returned = true
			}()
			for i := 0; !started && i < 5000; i++ {
				simrt.Sleep(time.Millisecond)
			}
			// take the token the holder gave back: the limiter is saturated again
			go func() {
				rctx, rel := concurrencylimiter.Acquire(probeCtx)
				if rctx != probeCtx {
					rels[0] = rel
				}
				refilled = true
			}()
			simrt.Sleep(2 * time.Second)
			c.Probe("release-during-temporary-release-on-a-saturated-limiter")
			if refilled && !returned {
				c.Violate("released-holder-waits-for-a-token", "with all %d tokens held by others, TemporarilyRelease of a holder that was released during it did not return within two simulated seconds", n)
			}
		}
	}
	probeCancel()
	for _, r := range rels {
		if !callBounded(r) {
			c.Violate("release-blocked", "release() of a held token did not return within a simulated second")
			return
		}
	}
	simrt.Sleep(time.Second)
}

// callBounded runs f on a helper task and waits at most a simulated second
// for it: the main task never blocks on the code under test.
func callBounded(f func()) bool {
	done := false
	go func() {
		f()
		done = true
	}()
	for i := 0; !done && i < 1000; i++ {
		simrt.Sleep(time.Millisecond)
	}
	return done
}
