// Package h4 simulates batch.Func (C05) and the concurrency limiter (C20).
package h4

import (
	"context"
	"errors"
	"fmt"
	"strings"
	"time"

	"github.com/samsarahq/thunder/batch"
	"github.com/samsarahq/thunder/concurrencylimiter"
	"simrt"
	"simrt/runner"
)

func init() {
	runner.Register("C05", runner.Scenario{Name: "batch", Options: func(string) simrt.Options {
		return simrt.Options{MaxSteps: 60000, RotateMaps: true}
	}, Body: func(c *runner.Ctx) { batchBody(c) }})
	runner.Register("C05", runner.Scenario{Name: "batch-stall", Options: func(string) simrt.Options {
		return simrt.Options{MaxSteps: 60000, RotateMaps: true, StallPermille: 40, StallMax: 4 * time.Millisecond}
	}, Body: func(c *runner.Ctx) { batchBody(c) }})
	runner.Register("C05", runner.Scenario{Name: "batch-preempt", Options: func(string) simrt.Options {
		return simrt.Options{MaxSteps: 60000, RotateMaps: true, ParkPermille: 15, MapPausePermille: 200, SpawnPausePermille: 30}
	}, Body: func(c *runner.Ctx) { batchBody(c) }})
	// the same workload under the limiter property: callers hold tokens, Many
	// runs on their goroutines, waiters release theirs temporarily
	runner.Register("C20", runner.Scenario{Name: "batch-under-limiter", Options: func(string) simrt.Options {
		return simrt.Options{MaxSteps: 60000, RotateMaps: true, ParkPermille: 10, MapPausePermille: 200, SpawnPausePermille: 30}
	}, Body: func(c *runner.Ctx) { batchBody(c) }})
}

// arg is the unique argument of one Invoke call.
type arg struct {
	id    int // unique per call
	bctx  int // which batching context the call used
	shard int // value the shard function maps it to (-1 without shard function)
	// badShard: the Func's Shard callback panics for this argument (user code,
	// like Many); the panic is the caller's, everybody else carries on
	badShard bool
}

func f(a arg) int { return a.id*1000 + 7 }

// Two shard key types whose values print alike: shardA(1) and shardB(1) are
// different shards.
type shardA int
type shardB int

type manyCall struct {
	seq     uint64
	args    []arg
	outcome string
	err     error
	ctxErr  bool
}

type invokeRec struct {
	a         arg
	done      bool
	res       interface{}
	err       error
	start     uint64
	end       uint64
	ownCancel bool // this call's own context (or its root) was cancelled before it returned
	panicked  bool // Invoke panicked (in the Shard callback)
}

type batchWorld struct {
	c       *runner.Ctx
	calls   []*manyCall
	invokes []*invokeRec
	faulty  bool
	cancels int
	// limit > 0: every caller holds a token of a concurrency limiter of that
	// size (one limiter per batching context) while it invokes; running counts
	// the Many calls in progress per limiter
	limit   int
	running map[int]int
}

var errMany = errors.New("many failed")

func (w *batchWorld) many(shardMod int) func(ctx context.Context, args []interface{}) ([]interface{}, error) {
	return func(ctx context.Context, args []interface{}) ([]interface{}, error) {
		mc := &manyCall{seq: simrt.Seq(), outcome: "ok"}
		for _, x := range args {
			mc.args = append(mc.args, x.(arg))
		}
		w.calls = append(w.calls, mc)
		if w.limit > 0 && len(mc.args) > 0 {
			// Many is the work the limiter bounds: it runs on the goroutine of a
			// caller that holds a token
			ci := mc.args[0].bctx / 10
			w.running[ci]++
			defer func() { w.running[ci]-- }()
			if w.running[ci] > w.limit {
				w.c.ViolateFor("C20,C05", "more-many-calls-than-limit", "%d calls of Many are running at the same time under a concurrency limiter of %d whose tokens their callers hold", w.running[ci], w.limit)
			}
			if w.running[ci] == w.limit {
				w.c.Probe("many-calls-at-the-limit")
			}
		}
		if len(args) >= 2 {
			w.c.NonTrivial()
			w.c.Probe("batch-of-2+")
		}
		simrt.Logf("Many call #%d args=%v", len(w.calls), mc.args)
		// latency with scheduling points
		if d := w.c.Choose(4, "many-latency"); d > 0 {
			simrt.Sleep(time.Duration(d) * 1500 * time.Microsecond)
		} else {
			simrt.Yield()
		}
		res := make([]interface{}, 0, len(args)+1)
		for _, a := range mc.args {
			res = append(res, f(a))
		}
		if w.faulty {
			switch w.c.Biased(8, 700, "many-outcome") {
			case 6:
				// a runtime error (not a string) panic inside Many
				mc.outcome = "panic"
				w.c.Fault("batch-many-runtime-panic")
				var m map[string]int
				m[fmt.Sprintf("boom-%d", len(w.calls))] = 1
			case 7:
				// a nil slice with a nil error for a non-empty batch
				mc.outcome = "short"
				w.c.Fault("batch-many-nil-result")
				return nil, nil
			case 1:
				mc.outcome = "error"
				mc.err = fmt.Errorf("many failed: call %d: %w", len(w.calls), errMany)
				w.c.Fault("batch-many-error")
				return nil, mc.err
			case 2:
				if w.c.Choose(3, "panic-value") == 0 {
					// panic(nil) (the module's go version keeps the old meaning, see
					// the go:debug line of the test binary): recover() returns nil,
					// and what the callers then see is a result of the wrong length
					mc.outcome = "short"
					w.c.Fault("batch-many-panic-nil")
					var nothing interface{}
					panic(nothing)
				}
				mc.outcome = "panic"
				w.c.Fault("batch-many-panic")
				panic(fmt.Sprintf("boom-%d", len(w.calls)))
			case 3:
				mc.outcome = "short"
				w.c.Fault("batch-many-short")
				return res[:len(res)-1], nil
			case 4:
				mc.outcome = "long"
				w.c.Fault("batch-many-long")
				return append(res, -1), nil
			case 5:
				if ctx.Err() != nil {
					mc.outcome = "error"
					mc.ctxErr = true
					mc.err = ctx.Err()
					return nil, mc.err
				}
			}
		}
		return res, nil
	}
}

// legitCtxErr: a call may return a context error without its argument being
// fetched only if its own context was cancelled before it returned, or if it
// was batched with a call whose context was cancelled - which requires that
// the two calls (same Func, batching context and shard) overlapped in time.
func (w *batchWorld) legitCtxErr(r *invokeRec) bool {
	if r.ownCancel {
		return true
	}
	for _, l := range w.invokes {
		if l == r || !l.done || !l.ownCancel || l.a.bctx != r.a.bctx || l.a.shard != r.a.shard {
			continue
		}
		if l.err != nil && errors.Is(l.err, context.Canceled) && l.start < r.end && r.start < l.end {
			return true
		}
	}
	return false
}

func batchBody(c *runner.Ctx) {
	w := &batchWorld{c: c}
	w.faulty = c.Choose(2, "class") == 1
	c.Class = "fault-free"
	if w.faulty {
		c.Class = "faulty"
	}
	maxSize := []int{0, 1, 2, 3, 5}[c.Choose(5, "maxsize")]
	waitInterval := []time.Duration{0, time.Millisecond, 5 * time.Millisecond}[c.Choose(3, "wait-interval")]
	maxDuration := []time.Duration{0, 3 * time.Millisecond, 20 * time.Millisecond}[c.Choose(3, "max-duration")]
	shardMod := []int{0, 2, 3}[c.Choose(3, "shard")]
	typedShards := c.Choose(2, "typed-shard-keys") == 1
	nFuncs := 1 + c.Choose(2, "funcs")
	var funcs []*batch.Func
	for i := 0; i < nFuncs; i++ {
		bf := &batch.Func{MaxSize: maxSize, WaitInterval: waitInterval, MaxDuration: maxDuration}
		bf.Many = w.many(shardMod)
		if shardMod > 0 {
			bf.Shard = func(x interface{}) interface{} {
				if x.(arg).badShard {
					w.c.Fault("batch-shard-panic")
					panic("shard-boom")
				}
				// arg.shard = value + 100*kind
				if s := x.(arg).shard; s >= 100 {
					return shardB(s - 100)
				} else {
					return shardA(s)
				}
			}
		}
		funcs = append(funcs, bf)
	}
	nCtx := 1 + c.Choose(2, "contexts")
	limit := []int{0, 0, 1, 2, 3}[c.Choose(5, "limiter")]
	w.limit, w.running = limit, map[int]int{}
	var roots []context.Context
	var rootCancels []context.CancelFunc
	for i := 0; i < nCtx; i++ {
		ctx, cancel := context.WithCancel(context.Background())
		ctx = batch.WithBatching(ctx)
		if limit > 0 {
			ctx = concurrencylimiter.With(ctx, limit)
		}
		roots = append(roots, ctx)
		rootCancels = append(rootCancels, cancel)
	}
	nCallers := 1 + c.Choose(12, "callers")
	c.Describe("maxSize=%d waitInterval=%v maxDuration=%v shardMod=%d funcs=%d contexts=%d limiter=%d callers=%d faulty=%v", maxSize, waitInterval, maxDuration, shardMod, nFuncs, nCtx, limit, nCallers, w.faulty)
	grid := []time.Duration{0, 0, 500 * time.Microsecond, time.Millisecond, 1500 * time.Microsecond, 2 * time.Millisecond, 3 * time.Millisecond,
		5 * time.Millisecond, 6 * time.Millisecond, 10 * time.Millisecond, 19 * time.Millisecond, 20 * time.Millisecond, 21 * time.Millisecond, 30 * time.Millisecond}
	rootCancelled := make([]bool, nCtx)
	nextID := 0
	var desc []string
	for k := 0; k < nCallers; k++ {
		ci := c.Choose(nCtx, "caller-ctx")
		fi := c.Choose(nFuncs, "caller-func")
		delay := grid[c.Choose(len(grid), "caller-delay")]
		nInv := 1 + c.Biased(2, 700, "caller-invokes")
		cancelAt := time.Duration(-1)
		if w.faulty && c.Biased(4, 750, "caller-cancel") > 0 {
			cancelAt = grid[c.Choose(len(grid), "cancel-at")]
		}
		desc = append(desc, fmt.Sprintf("caller%d(ctx%d f%d +%v x%d cancel@%v)", k, ci, fi, delay, nInv, cancelAt))
		var recs []*invokeRec
		for j := 0; j < nInv; j++ {
			a := arg{id: nextID, bctx: ci*10 + fi, shard: -1}
			if shardMod > 0 {
				a.shard = nextID % shardMod
				if typedShards && (nextID/shardMod)%2 == 1 {
					a.shard += 100
				}
				if w.faulty && c.Biased(2, 930, "shard-panic") > 0 {
					a.badShard = true
				}
			}
			nextID++
			r := &invokeRec{a: a}
			recs = append(recs, r)
			w.invokes = append(w.invokes, r)
		}
		ctx, cancel := context.WithCancel(roots[ci])
		callerCancelled := false
		if cancelAt >= 0 {
			go func() {
				simrt.Sleep(cancelAt)
				simrt.Yield()
				callerCancelled = true
				w.cancels++
				c.Fault("ctx-cancel")
				cancel()
			}()
		}
		go func() {
			defer cancel()
			simrt.Sleep(delay)
			for _, r := range recs {
				cctx := ctx
				release := func() {}
				if limit > 0 {
					cctx, release = concurrencylimiter.Acquire(ctx)
				}
				r.start = simrt.Seq()
				simrt.Logf("Invoke start arg=%v", r.a)
				var res interface{}
				var err error
				func() {
					defer func() {
						if p := recover(); p != nil {
							if !r.a.badShard || fmt.Sprint(p) != "shard-boom" {
								panic(p)
							}
							r.panicked = true
						}
					}()
					res, err = funcs[fi].Invoke(cctx, r.a)
				}()
				r.res, r.err, r.done, r.end = res, err, true, simrt.Seq()
				r.ownCancel = callerCancelled || rootCancelled[ci]
				simrt.Logf("Invoke end arg=%v res=%v err=%v", r.a, res, err)
				release()
			}
		}()
	}
	if w.faulty && c.Biased(5, 800, "root-cancel") > 0 {
		ci := c.Choose(nCtx, "root-cancel-ctx")
		at := grid[c.Choose(len(grid), "root-cancel-at")]
		desc = append(desc, fmt.Sprintf("cancel-root%d@%v", ci, at))
		go func() {
			simrt.Sleep(at)
			rootCancelled[ci] = true
			w.cancels++
			c.Fault("ctx-cancel-root")
			rootCancels[ci]()
		}()
	}
	c.Describe("%s", strings.Join(desc, " "))

	simrt.Sleep(time.Minute)
	for _, cancel := range rootCancels {
		defer cancel()
	}
	// ---- oracle ----
	seen := map[int]*manyCall{}
	for i, mc := range w.calls {
		if maxSize > 0 && len(mc.args) > maxSize {
			c.ViolateFor("C05", "batch-exceeds-maxsize", "Many call %d received %d arguments, MaxSize is %d", i+1, len(mc.args), maxSize)
		}
		if len(mc.args) == 0 {
			c.ViolateFor("C05", "empty-batch", "Many call %d received no arguments", i+1)
			continue
		}
		for _, a := range mc.args {
			if a.shard != mc.args[0].shard {
				c.ViolateFor("C05", "batch-mixes-shards", "Many call %d mixes shards: %v", i+1, mc.args)
			}
			if a.bctx != mc.args[0].bctx {
				c.ViolateFor("C05", "batch-mixes-contexts-or-funcs", "Many call %d mixes batching contexts / Funcs: %v", i+1, mc.args)
			}
			if prev, dup := seen[a.id]; dup {
				c.ViolateFor("C05", "argument-fetched-twice", "argument %v was handed to Many twice (calls at #%d and #%d)", a, prev.seq, mc.seq)
			}
			seen[a.id] = mc
		}
	}
	for _, r := range w.invokes {
		if !r.done {
			if r.start == 0 {
				// the caller never got to this Invoke (it is behind one that hangs)
				continue
			}
			c.ViolateFor("C05", "invoke-never-returned", "Invoke(%v) did not return within one simulated minute", r.a)
			continue
		}
		mc := seen[r.a.id]
		if r.panicked {
			// the Shard callback's panic came out of Invoke: nothing was fetched
			if mc != nil {
				c.ViolateFor("C05", "fetched-despite-shard-panic", "Invoke(%v) panicked in the Shard callback but its argument was handed to Many", r.a)
			}
			continue
		}
		if r.err == nil {
			switch {
			case mc == nil:
				c.ViolateFor("C05", "result-without-fetch", "Invoke(%v) returned %v but its argument was never handed to Many", r.a, r.res)
			case r.res != interface{}(f(r.a)):
				c.ViolateFor("C05", "wrong-result", "Invoke(%v) returned %v, want %v (batch %v, outcome %s)", r.a, r.res, f(r.a), mc.args, mc.outcome)
			case mc.outcome != "ok":
				c.ViolateFor("C05", "result-from-failed-batch", "Invoke(%v) returned a result although its Many call ended as %s", r.a, mc.outcome)
			}
			continue
		}
		// an error: must be its batch's error or a legitimate context error
		ok := false
		if mc != nil {
			switch mc.outcome {
			case "error":
				ok = r.err == mc.err
			case "panic":
				ok = strings.HasPrefix(r.err.Error(), "Func.Many panicked: boom-") || strings.HasPrefix(r.err.Error(), "Func.Many panicked: assignment to entry in nil map")
			case "short", "long":
				ok = r.err.Error() == "Func.Many returned incorrect number of results"
			}
		}
		isCtxErr := errors.Is(r.err, context.Canceled) || errors.Is(r.err, context.DeadlineExceeded)
		if !ok && isCtxErr && mc == nil && w.legitCtxErr(r) {
			ok = true
		}
		if !ok {
			out := "none"
			if mc != nil {
				out = mc.outcome
			}
			key := "foreign-error"
			if isCtxErr && mc == nil {
				key = "stale-context-error"
			}
			c.ViolateFor("C05", key, "Invoke(%v) returned error %q which is neither the error of its own Many call (outcome %s) nor a context error explained by a cancellation of its own context or of a call it was batched with", r.a, r.err, out)
		}
	}
	if w.cancels == 0 {
		for _, r := range w.invokes {
			if r.done && !r.panicked && seen[r.a.id] == nil {
				c.ViolateFor("C05", "argument-never-fetched", "Invoke(%v) returned but its argument was never handed to Many although no context was cancelled", r.a)
			}
		}
	}
}
