package cmd

import (
	"testing"

	"simrt/runner"
	_ "vh/h3"
	_ "vh/h4"
	_ "vh/h1"
	_ "vh/h6"
)

func TestSim(t *testing.T) { runner.Main(t) }
