// thunder's go.mod says go 1.15: in its own builds panic(nil) still means
// "recover() returns nil". The instrumented copy is compiled inside this
// module, so the setting is carried over.
//
//go:debug panicnil=1
package cmd

import (
	"testing"

	"simrt/runner"
	_ "vh/h1"
	_ "vh/h3"
	_ "vh/h4"
	_ "vh/h6"
)

func TestSim(t *testing.T) { runner.Main(t) }
