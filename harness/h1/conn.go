package h1

import (
	"context"
	"encoding/json"
	"errors"
	"fmt"
	"io"
	"log"
	"reflect"
	"sort"
	"strings"
	"time"

	"github.com/gorilla/websocket"
	"github.com/samsarahq/thunder/diff"
	"github.com/samsarahq/thunder/graphql"
	"simrt"
	"simrt/runner"
)

func init() {
	log.SetOutput(io.Discard)
	opts := func(string) simrt.Options { return simrt.Options{MaxSteps: 400000, RotateMaps: true} }
	stall := func(string) simrt.Options {
		return simrt.Options{MaxSteps: 400000, RotateMaps: true, StallPermille: 20, StallMax: 50 * time.Millisecond}
	}
	for _, p := range []string{"C02", "C17", "C15", "C16"} {
		p := p
		runner.Register(p, runner.Scenario{Name: "connection", Options: opts, Body: func(c *runner.Ctx) { connBody(c) }})
		runner.Register(p, runner.Scenario{Name: "connection-stall", Options: stall, Body: func(c *runner.Ctx) { connBody(c) }})
		runner.Register(p, runner.Scenario{Name: "connection-preempt", Options: func(string) simrt.Options {
			return simrt.Options{MaxSteps: 400000, RotateMaps: true, ParkPermille: 6, MapPausePermille: 200, SpawnPausePermille: 30}
		}, Body: func(c *runner.Ctx) { connBody(c) }})
	}
}

// ---- the fake socket -------------------------------------------------------

type wireMsg struct {
	seq    uint64
	task   int
	raw    string
	id     string
	typ    string
	msg    interface{}
	byLoop bool // written by the connection's read loop (a reply to the message being handled)
}

type sock struct {
	writing   int // WriteJSON calls in progress
	h         *connHarness
	in        chan []byte
	closed    chan struct{}
	isClosed  bool
	readCalls int
	loopTask  int
	writes    []*wireMsg
	failWrite int // fail the n-th write from now (0 = never)
	delayW    bool
}

func (s *sock) ReadJSON(v interface{}) error {
	s.loopTask = simrt.CurID()
	s.readCalls++
	s.h.onProcessed(s.readCalls - 1)
	select {
	case b := <-s.in:
		simrt.Logf("server reads: %s", b)
		return json.Unmarshal(b, v)
	case <-s.closed:
		return &websocket.CloseError{Code: websocket.CloseNormalClosure}
	}
}

func (s *sock) WriteJSON(v interface{}) error {
	// one frame at a time: gorilla/websocket panics ("concurrent write to
	// websocket connection") or interleaves the frames of two writers
	if s.writing > 0 {
		s.h.c.ViolateFor("C02,C15,C16,C17", "concurrent-socket-write", "WriteJSON was called by task %s while another WriteJSON on the same socket was still in progress", simrt.CurName())
	}
	s.writing++
	defer func() { s.writing-- }()
	simrt.Yield()
	b, err := json.Marshal(v)
	if err != nil {
		s.h.c.Violate("unserialisable-envelope", "WriteJSON got a value that does not serialise: %v", err)
		return err
	}
	// an envelope that is lost (closed socket, write error) may have reported a
	// subscription's own failure; that subscription legitimately ends itself
	lost := func() {
		var env struct {
			ID   string `json:"id"`
			Type string `json:"type"`
		}
		if json.Unmarshal(b, &env) == nil && env.Type == "error" && simrt.CurID() != s.loopTask {
			if in := s.h.live[env.ID]; in != nil {
				in.initialErr = true
			}
		}
	}
	if s.isClosed {
		lost()
		return websocket.ErrCloseSent
	}
	if s.failWrite > 0 {
		s.failWrite--
		if s.failWrite == 0 {
			s.h.c.Fault("socket-write-error")
			s.h.writeFailed = true
			lost()
			return errors.New("broken pipe")
		}
	}
	if s.delayW && s.h.c.Biased(3, 700, "socket-delay") > 0 {
		simrt.Sleep(time.Duration(1+s.h.c.Choose(4, "socket-delay-ms")) * time.Millisecond)
	}
	m := &wireMsg{seq: simrt.Seq(), task: simrt.CurID(), raw: string(b), byLoop: simrt.CurID() == s.loopTask}
	var env struct {
		ID      string      `json:"id"`
		Type    string      `json:"type"`
		Message interface{} `json:"message"`
	}
	if err := json.Unmarshal(b, &env); err != nil {
		s.h.c.Violate("unparsable-envelope", "server wrote %s: %v", b, err)
		return nil
	}
	m.id, m.typ, m.msg = env.ID, env.Type, env.Message
	s.writes = append(s.writes, m)
	simrt.Logf("server writes: %s", short(json.RawMessage(b)))
	s.h.onWrite(m)
	return nil
}

func (s *sock) Close() error {
	if !s.isClosed {
		s.isClosed = true
		close(s.closed)
		simrt.Logf("socket closed")
	}
	return nil
}

// ---- the client model ------------------------------------------------------

type instance struct {
	inst       int
	id         string
	root       *qset
	text       string
	msgIndex   int // position in the sequence of messages the server reads
	accepted   bool
	acceptSeq  uint64
	ended      bool
	endSeq     uint64
	endReason  string
	state      interface{}
	gotFirst   bool
	errorEnvs  int
	updates    int
	initialErr bool
	// failedHard: a resolver of this instance returned context.Canceled, so
	// the subscription ends itself (no envelope is sent for that)
	failedHard bool
	// failedBeforeFirst: an ordinary resolver failure fired for this instance
	// before it had received its first update (its initial run failed)
	failedBeforeFirst bool
	// clientUnsub: the client sent an unsubscribe for this instance's id after
	// subscribing it
	clientUnsub bool
	// doomed: the query cannot be executed (bad directive argument): no update
	// may ever be sent for it
	doomed bool
	// wild: arbitrary arguments; whether it fails or what it returns is not
	// predicted, only that the server survives it
	wild bool
	// inBackend > 0: a computation of this instance is waiting in a hanging
	// backend call; nothing can be expected of it until it is cancelled
	inBackend int
}

type logEvent struct {
	seq  uint64
	sub  bool
	id   string
	inst int
}

type sentMsg struct {
	kind string // subscribe, unsubscribe, mutate, echo, garbage
	id   string
	inst *instance
}

type connHarness struct {
	c          *runner.Ctx
	w          *world
	s          *sock
	schema     *graphql.Schema
	sent       []*sentMsg
	processed  int // messages fully handled by the read loop
	instances  []*instance
	live       map[string]*instance // id -> accepted, not ended instance
	logs       []logEvent
	liveCount  int
	maxSubs    int
	served     bool
	servedSeq  uint64
	echoes     map[string]int
	results    map[string]int // "result" envelopes per id
	errorsByID map[string]int // "error" envelopes per id
	mutates    map[string]int // mutate messages sent per id
	bumpNSent  int            // read-modify-write mutations sent
	faulty     bool
	// ctxCancelled: the connection context was cancelled (subscriptions then
	// end themselves with context.Canceled)
	ctxCancelled bool
	clientClosed bool
	writeFailed  bool
	loopErrors   map[int]int // error envelopes written by the read loop, by index of the message being handled
}

// execLogger is the connection's GraphqlLogger. Reporting an error can be
// slow (a logger that ships errors over the network): the computation that
// failed is still inside Error while its error envelope is already on the wire.
type execLogger struct{ h *connHarness }

func (l execLogger) StartExecution(ctx context.Context, tags map[string]string, initial bool) {}
func (l execLogger) FinishExecution(ctx context.Context, tags map[string]string, delay time.Duration) {
}
func (l execLogger) Error(ctx context.Context, err error, tags map[string]string) {
	if !l.h.faulty {
		return
	}
	if d := l.h.c.Biased(4, 700, "error-logger-slow"); d > 0 {
		l.h.c.Fault("error-logger-slow")
		simrt.Sleep([]time.Duration{0, 5 * time.Millisecond, 100 * time.Millisecond, time.Second}[d])
	}
}

type recLogger struct{ h *connHarness }

func (l recLogger) Subscribe(ctx context.Context, id string, tags map[string]string) {
	h := l.h
	inst := -1
	var vars map[string]interface{}
	if json.Unmarshal([]byte(tags["queryVariables"]), &vars) == nil {
		if f, ok := vars["inst"].(float64); ok {
			inst = int(f)
		}
	}
	h.logs = append(h.logs, logEvent{simrt.Seq(), true, id, inst})
	simrt.Logf("logger Subscribe id=%s inst=%d", id, inst)
	if prev := h.live[id]; prev != nil {
		h.c.ViolateFor("C17", "duplicate-id-accepted", "Subscribe logged for id %q (instance %d) while instance %d with the same id is still live", id, inst, prev.inst)
	}
	h.liveCount++
	if h.liveCount > h.maxSubs {
		h.c.ViolateFor("C17", "subscription-limit-exceeded", "%d subscriptions live, limit is %d", h.liveCount, h.maxSubs)
	}
	if inst >= 0 && inst < len(h.instances) {
		in := h.instances[inst]
		in.accepted, in.acceptSeq = true, simrt.Seq()
		h.live[id] = in
	}
}

func (l recLogger) Unsubscribe(ctx context.Context, id string) {
	h := l.h
	h.logs = append(h.logs, logEvent{simrt.Seq(), false, id, -1})
	simrt.Logf("logger Unsubscribe id=%s", id)
	if in := h.live[id]; in != nil {
		// every ending needs a cause: an unsubscribe (or the closing connection)
		// being handled by the read loop right now, the subscription's own
		// failure, or a cancelled connection context
		byLoop := simrt.CurID() == h.s.loopTask
		if !byLoop && !in.initialErr && !in.failedHard && !h.ctxCancelled {
			h.c.ViolateFor("C17,C02", "subscription-ended-without-cause", "instance %d (id %s) was closed (Unsubscribe logged by task %s) although nobody unsubscribed it, it did not fail and the connection is open", in.inst, in.id, simrt.CurName())
		}
		h.end(in, "unsubscribe-logged")
		h.liveCount--
	}
}

func (h *connHarness) end(in *instance, reason string) {
	if !in.ended {
		in.ended, in.endSeq, in.endReason = true, simrt.Seq(), reason
		simrt.Logf("instance %d (id %s) ended: %s", in.inst, in.id, reason)
	}
	if h.live[in.id] == in {
		delete(h.live, in.id)
	}
}

// onProcessed: the read loop asked for the next message, so message k-1 has
// been handled completely.
func (h *connHarness) onProcessed(k int) {
	h.processed = k
}

// jsMerge is the documented delta format as client/src/merge.ts applies it.
func jsMerge(original, update interface{}) (interface{}, error) {
	if arr, ok := update.([]interface{}); ok {
		if len(arr) != 1 {
			return nil, fmt.Errorf("replacement wrapper of length %d", len(arr))
		}
		return arr[0], nil
	}
	upd, ok := update.(map[string]interface{})
	if !ok {
		return update, nil // scalar or null
	}
	if orig, ok := original.([]interface{}); ok {
		var merged []interface{}
		order, has := upd["$"]
		if !has {
			merged = append(merged, orig...)
		} else {
			list, ok := order.([]interface{})
			if !ok {
				return nil, fmt.Errorf("$ is not a list")
			}
			for _, x := range list {
				switch x := x.(type) {
				case []interface{}:
					if len(x) != 2 {
						return nil, fmt.Errorf("bad run %v", x)
					}
					start, n := int(x[0].(float64)), int(x[1].(float64))
					for i := start; i < start+n; i++ {
						if i < 0 || i >= len(orig) {
							return nil, fmt.Errorf("run [%d,%d] outside the previous array of length %d", start, n, len(orig))
						}
						merged = append(merged, orig[i])
					}
				case float64:
					i := int(x)
					if i == -1 {
						merged = append(merged, nil)
					} else if i < 0 || i >= len(orig) {
						return nil, fmt.Errorf("index %d outside the previous array of length %d", i, len(orig))
					} else {
						merged = append(merged, orig[i])
					}
				default:
					return nil, fmt.Errorf("bad reorder entry %v", x)
				}
			}
		}
		if merged == nil {
			merged = []interface{}{}
		}
		for k, v := range upd {
			if k == "$" {
				continue
			}
			var i int
			if _, err := fmt.Sscanf(k, "%d", &i); err != nil || i < 0 || i >= len(merged) {
				return nil, fmt.Errorf("array delta addresses element %q of an array of length %d", k, len(merged))
			}
			m, err := jsMerge(merged[i], v)
			if err != nil {
				return nil, err
			}
			merged[i] = m
		}
		return merged, nil
	}
	if _, has := upd["$"]; has {
		return nil, fmt.Errorf("array delta ($) for a value that is not an array")
	}
	merged := map[string]interface{}{}
	if om, ok := original.(map[string]interface{}); ok {
		for k, v := range om {
			merged[k] = v
		}
	}
	for k, v := range upd {
		if arr, ok := v.([]interface{}); ok && len(arr) == 0 {
			delete(merged, k)
			continue
		}
		m, err := jsMerge(merged[k], v)
		if err != nil {
			return nil, err
		}
		merged[k] = m
	}
	return merged, nil
}

func (h *connHarness) onWrite(m *wireMsg) {
	c := h.c
	if strings.Contains(m.raw, "SECRET-") {
		c.ViolateFor("C16,C15", "secret-on-the-wire", "the text of an error not marked safe reached the client: %s", m.raw)
	}
	if strings.Contains(m.raw, "BURIED") {
		c.ViolateFor("C16", "buried-safe-error-on-the-wire", "the message of a client-safe error that is only wrapped inside an error not marked safe reached the client: %s", m.raw)
	}
	switch m.typ {
	case "echo":
		h.echoes[m.id]++
	case "result":
		h.results[m.id]++
	case "error":
		h.errorsByID[m.id]++
		if m.byLoop {
			h.loopErrors[h.s.readCalls-1]++
		}
		msg, _ := m.msg.(string)
		okMsg := msg == "Internal server error" || strings.HasPrefix(msg, "safe-") ||
			msg == "duplicate subscription" || msg == "too many subscriptions" || msg == "unknown message type"
		if !okMsg {
			// client errors of parsing / validation are safe by construction; anything else is not
			// (the same goes for a directive argument rejected when the query is
			// first executed: thunder's own client error about the request text)
			doomed := false
			if in := h.live[m.id]; in != nil && in.doomed {
				doomed = strings.Contains(msg, "directive") || strings.Contains(msg, "\"if\" argument")
			} else if in != nil && in.wild {
				doomed = true // thunder's own complaint about the arguments (no resolver text can be in it)
			}
			if !m.byLoop && !doomed {
				c.ViolateFor("C16", "unsanitised-error-envelope", "error envelope with message %q is neither a safe error of the request nor the generic message", msg)
			}
		}
		if !m.byLoop {
			if in := h.live[m.id]; in != nil {
				in.errorEnvs++
				if in.gotFirst {
					c.ViolateFor("C16,C02", "error-envelope-after-first-update", "subscription instance %d (id %s) got an error envelope after its first update", in.inst, in.id)
				}
				in.initialErr = true
				if in.errorEnvs > 1 {
					c.ViolateFor("C16", "initial-failure-reported-twice", "subscription instance %d (id %s) got %d error envelopes", in.inst, in.id, in.errorEnvs)
				}
				h.endByError(in)
			}
		}
	case "update":
		in := h.live[m.id]
		if in == nil {
			key := "update-without-live-subscription"
			for _, x := range h.instances {
				if x.id == m.id && x.ended {
					key = "update-after-subscription-ended"
				}
			}
			c.ViolateFor("C02,C17", key, "update for id %q written although no subscription with that id is live: %s", m.id, short(m.msg))
			return
		}
		if in.initialErr {
			c.ViolateFor("C16,C17", "update-after-initial-failure", "instance %d (id %s) got an update after its error envelope", in.inst, in.id)
		}
		if in.doomed {
			c.ViolateFor("C15,C16", "update-for-unexecutable-query", "instance %d (id %s) cannot be executed (bad @skip/@include argument) but got an update: %s\nquery: %s", in.inst, in.id, short(m.msg), in.text)
		}
		if !in.gotFirst {
			in.gotFirst = true
			if arr, ok := m.msg.([]interface{}); !ok || len(arr) != 1 {
				if _, isMap := m.msg.(map[string]interface{}); isMap || !ok {
					c.ViolateFor("C02", "first-update-not-full", "the first update of instance %d (id %s) is not a complete replacement: %s", in.inst, in.id, short(m.msg))
				}
			}
		}
		in.updates++
		if in.updates >= 2 {
			c.NonTrivial()
		}
		st, err := jsMerge(in.state, m.msg)
		if err != nil {
			c.ViolateFor("C02", "delta-does-not-apply", "update for instance %d (id %s) cannot be applied to the client's state: %v\nstate: %s\ndelta: %s", in.inst, in.id, err, short(in.state), short(m.msg))
			return
		}
		in.state = st
	default:
		c.ViolateFor("C02", "unknown-envelope-type", "server wrote an envelope of type %q", m.typ)
	}
}

// endByError: an initially failing subscription is reported once, then closed
// (the Unsubscribe log follows asynchronously).
func (h *connHarness) endByError(in *instance) {
	in.endReason = "initial-failure"
}

// send hands one message to the server's read loop. It reports whether the
// server took it; a message it did not take within the (generous) bound is
// withdrawn, so that the count of messages the loop has handled keeps matching
// the positions in h.sent.
func (h *connHarness) send(kind, id string, payload interface{}, in *instance) bool {
	env := map[string]interface{}{"id": id, "type": kind}
	if payload != nil {
		env["message"] = payload
	}
	b, _ := json.Marshal(env)
	if kind == "garbage" {
		b = payload.([]byte)
	}
	h.sent = append(h.sent, &sentMsg{kind, id, in})
	if in != nil {
		in.msgIndex = len(h.sent) - 1
	}
	// never wait unboundedly on the server: it may have stopped reading. The
	// bound is in simulated time and far above what injected pauses add up to.
	t := time.NewTimer(10 * time.Minute)
	defer t.Stop()
	select {
	case h.s.in <- b:
		return true
	case <-h.s.closed:
		return false
	case <-t.C:
		simrt.Logf("client: server did not read %s within 10 minutes", kind)
		if n := len(h.sent); n > 0 && h.sent[n-1].kind == kind && h.sent[n-1].id == id {
			h.sent = h.sent[:n-1]
		}
		return false
	}
}

func stripKeys(v interface{}) interface{} { return diff.StripKey(v) }

// settleTasks: with the task-stall fault simulated time can pass while tasks
// are runnable, so before end-of-run accounting let every runnable thunder
// task finish what it is doing (bounded).
func settleTasks() {
	for i := 0; i < 2000; i++ {
		busy := false
		for _, t := range simrt.Alive() {
			if (t.State == "ready" || t.State == "waiting") && (strings.HasPrefix(t.Name, "reactive.") || strings.HasPrefix(t.Name, "graphql.") || strings.HasPrefix(t.Name, "batch.")) {
				busy = true
			}
		}
		if !busy {
			return
		}
		simrt.Sleep(time.Millisecond)
	}
}

// expected evaluates the instance's query with the reference evaluator on the
// current world, keys stripped, normalised through JSON.
func (h *connHarness) expected(in *instance) (interface{}, bool) {
	if in.wild {
		return nil, false
	}
	ev := &evaluator{w: h.w}
	want := ev.object("Query", 0, in.root, nil)
	delete(want.(map[string]interface{}), "__key")
	if len(ev.fails) > 0 {
		return nil, false
	}
	n, err := normalize(stripKeys(want))
	if err != nil {
		return nil, false
	}
	return n, true
}

func connBody(c *runner.Ctx) {
	w := newWorld(c)
	w.live = &liveState{w: w, trackers: map[string][]*liveRes{}, failNext: map[string]int{}, failKind: map[string]int{}, execFired: map[int]int{}}
	h := &connHarness{c: c, w: w, live: map[string]*instance{}, echoes: map[string]int{}, loopErrors: map[int]int{}, results: map[string]int{}, mutates: map[string]int{}, errorsByID: map[string]int{}}
	w.live.onCanceled = func(inst int) {
		if inst >= 0 && inst < len(h.instances) {
			h.instances[inst].failedHard = true
		}
	}
	w.live.onFailure = func(inst int) {
		if inst >= 0 && inst < len(h.instances) && !h.instances[inst].gotFirst {
			h.instances[inst].failedBeforeFirst = true
		}
	}
	h.faulty = c.Choose(2, "class") == 1
	c.Class = "fault-free"
	if h.faulty {
		c.Class = "faulty"
	}
	w.latency = c.Choose(2, "latency-on") == 1
	w.hang = h.faulty && c.Choose(3, "slow-backend") == 1
	w.onBlocked = func(inst int, blocked bool) {
		if inst >= 0 && inst < len(h.instances) {
			if blocked {
				h.instances[inst].inBackend++
			} else {
				h.instances[inst].inBackend--
			}
		}
	}
	var modeDesc []string
	for _, f := range computedFields {
		m := fieldMode{mode: c.Choose(5, "mode")}
		if c.Choose(4, "parallel") == 1 {
			m.parallel = 1 + c.Choose(3, "parallel-k")
		}
		w.modes[f] = m
		modeDesc = append(modeDesc, f+"="+m.String())
	}
	schema, err := w.buildSchemaWithMutation()
	if err != nil {
		c.Violate("schema-build-failed", "schemabuilder rejected the harness schema: %v", err)
		return
	}
	h.schema = schema
	h.maxSubs = []int{200, 1, 2, 3}[c.Choose(4, "max-subs")]
	minInterval := []time.Duration{50 * time.Millisecond, 5 * time.Second, 0}[c.Choose(3, "min-interval")]
	spawn := c.Choose(2, "always-spawn") == 1
	h.s = &sock{h: h, in: make(chan []byte), closed: make(chan struct{}), loopTask: -1, delayW: c.Choose(2, "socket-delays") == 1}
	if h.faulty && c.Choose(4, "socket-write-fails") == 1 {
		h.s.failWrite = 1 + c.Choose(12, "socket-write-fail-at")
	}
	ctx, cancelCtx := context.WithCancel(context.Background())
	defer cancelCtx()
	conn := graphql.CreateConnection(ctx, h.s, schema,
		graphql.WithSubscriptionLogger(recLogger{h}),
		graphql.WithExecutionLogger(execLogger{h}),
		graphql.WithMaxSubscriptions(h.maxSubs),
		graphql.WithMinRerunInterval(minInterval),
		graphql.WithAlwaysSpawnGoroutineFunc(func(context.Context, *graphql.Query) bool { return spawn }))
	conn.Use(func(input *graphql.ComputationInput, next graphql.MiddlewareNextFunc) *graphql.ComputationOutput {
		inst := -1
		if f, ok := input.Variables["inst"].(float64); ok {
			inst = int(f)
		}
		input.Ctx = context.WithValue(input.Ctx, instKey{}, inst)
		if l := w.live; l != nil { // (nil while the harness runs its own reference execution)
			delete(l.execFired, inst) // a new computation of this instance begins
		}
		return next(input)
	})
	// further pass-through middlewares (applications register several: auth,
	// tracing, metrics); some take a while, so that computations of different
	// operations are inside the chain at the same time
	nMw := c.Choose(5, "extra-middlewares")
	for i := 0; i < nMw; i++ {
		slow := c.Choose(3, "middleware-slow")
		conn.Use(func(input *graphql.ComputationInput, next graphql.MiddlewareNextFunc) *graphql.ComputationOutput {
			switch slow {
			case 1:
				simrt.Yield()
			case 2:
				simrt.Sleep(time.Millisecond)
			}
			out := next(input)
			if slow == 1 {
				simrt.Yield()
			}
			return out
		})
	}
	c.Describe("world A=%d B=%d C=%d maxSubs=%d minInterval=%v alwaysSpawn=%v modes: %s", w.nA, w.nB, w.nC, h.maxSubs, minInterval, spawn, strings.Join(modeDesc, " "))
	go func() {
		conn.ServeJSONSocket()
		h.served, h.servedSeq = true, simrt.Seq()
		simrt.Logf("ServeJSONSocket returned")
		for _, in := range h.instances {
			if in.accepted && !in.ended {
				h.end(in, "connection-closed")
			}
		}
	}()

	ids := []string{"s1", "s2", "s3"}
	nOps := 3 + c.Choose(10, "ops")
	var desc []string
	// the environment: other servers writing data
	envDone := false
	nWrites := c.Choose(8, "env-writes")
	go func() {
		for i := 0; i < nWrites; i++ {
			simrt.Sleep(time.Duration(c.Choose(12, "env-sleep")) * 30 * time.Millisecond)
			key := w.live.mutate()
			c.Fault("invalidate")
			_ = key
		}
		envDone = true
	}()
	// ops the client has already decided on: after subscribing with a query
	// that is going to fail it may at once unsubscribe and subscribe again
	// under the same id (a client that reacts to the error it was sent)
	type nextOp struct {
		op int
		id string
	}
	var forced []nextOp
	for k := 0; k < nOps && !h.s.isClosed && !h.served; k++ {
		var id string
		var op int
		if len(forced) > 0 {
			id, op = forced[0].id, forced[0].op
			forced = forced[1:]
			simrt.Sleep(time.Duration(c.Choose(4, "retry-pause")) * 5 * time.Millisecond)
		} else {
			switch c.Choose(4, "pause") {
			case 1:
				simrt.Sleep(time.Duration(c.Choose(10, "pause-ms")) * 20 * time.Millisecond)
			case 2:
				simrt.Sleep(time.Duration(1+c.Choose(6, "pause-s")) * time.Second)
			}
			id = ids[c.Choose(len(ids), "id")]
			op = c.Choose(12, "op")
		}
		switch {
		case op < 5: // subscribe
			g := &gen{c: c, w: w, budget: 10, unionFrags: c.Choose(4, "union-type-fragments") == 1, rootTN: true, bareFrags: true}
			root := g.genSet("Query", 0)
			if c.Choose(4, "directives") == 1 {
				g.dirs = true
				g.decorate(root)
			}
			in := &instance{inst: len(h.instances), id: id, root: root, text: g.text(root, "")}
			h.instances = append(h.instances, in)
			if h.faulty && c.Biased(4, 700, "initial-failure") > 0 {
				// make one datum the query needs fail on its next invocation
				h.armFailure(in, c.Choose(7, "failure-kind")+1, 1)
				if len(forced) == 0 && c.Choose(2, "client-retries-failed-subscription") == 1 {
					c.Probe("client-resubscribes-after-failure")
					forced = append(forced, nextOp{5, id}, nextOp{0, id})
				}
			}
			desc = append(desc, fmt.Sprintf("subscribe(%s #%d)", id, in.inst))
			c.Describe("instance %d id=%s: %s", in.inst, id, in.text)
			h.send("subscribe", id, map[string]interface{}{"query": in.text, "variables": map[string]interface{}{"inst": in.inst, "t": true, "f": false}}, in)
		case op < 7:
			desc = append(desc, fmt.Sprintf("unsubscribe(%s)", id))
			target := h.live[id]
			for _, in := range h.instances {
				if in.id == id && !in.ended {
					in.clientUnsub = true
				}
			}
			idx := len(h.sent)
			delivered := h.send("unsubscribe", id, nil, nil)
			// once the server asks for the next message the unsubscribe has been processed
			if target != nil && delivered {
				go func() {
					for h.processed <= idx && !h.served {
						simrt.Sleep(time.Millisecond)
					}
					if !target.ended {
						c.ViolateFor("C17,C02", "unsubscribe-did-not-end-subscription", "unsubscribe for id %s was processed but instance %d is still live (no Unsubscribe logged)", id, target.inst)
						h.end(target, "unsubscribe-processed")
					}
				}()
			}
		case op < 9: // mutate through the connection
			mid := id
			if c.Choose(3, "mutate-own-id") != 0 {
				mid = fmt.Sprintf("m%d", k)
			} else {
				c.Fault("id-collision")
			}
			q := "mutation { bump }"
			if c.Choose(3, "mutation-read-modify-write") == 1 {
				q = "mutation { bumpN }"
				h.bumpNSent++
			} else if h.faulty && c.Choose(3, "mutation-fails") == 1 {
				q = fmt.Sprintf("mutation { fail(kind: %d) }", 1+c.Choose(5, "mutation-fail-kind"))
				c.Fault("mutation-failure")
			}
			h.mutates[mid]++
			desc = append(desc, fmt.Sprintf("mutate(%s %s)", mid, q))
			h.send("mutate", mid, map[string]interface{}{"query": q, "variables": map[string]interface{}{}}, nil)
		case op < 10:
			desc = append(desc, "echo")
			h.send("echo", fmt.Sprintf("e%d", k), nil, nil)
		case op == 10 && h.faulty && c.Choose(3, "garbage-or-bomb") == 0:
			// a small valid query whose nested fragment spreads double at every
			// level: handling it must not take exponential time
			depth := 22 + c.Choose(5, "bomb-depth")
			var sb strings.Builder
			bombRoot := &qset{sels: []*qsel{{name: "n"}}}
			if c.Choose(2, "bomb-through-union") == 1 {
				// the same doubling, but every level goes through a union-typed
				// field; a(i: 99) is null, so nothing below it is executed
				depth += 10 // (one level is cheaper here than in the Query form)
				bombRoot = &qset{sels: []*qsel{{name: "a", arg: "(i: 99)", argV: 99, sub: &qset{sels: []*qsel{{name: "id"}}}}}}
				sb.WriteString("{ a(i: 99) { id ...F0 } }\n")
				for i := 0; i < depth; i++ {
					fmt.Fprintf(&sb, "fragment F%d on A { u { ... on A { ...F%d } } zu: u { ... on A { ...F%d } } }\n", i, i+1, i+1)
				}
				fmt.Fprintf(&sb, "fragment F%d on A { id }\n", depth)
			} else {
				sb.WriteString("{ ...F0 }\n")
				for i := 0; i < depth; i++ {
					fmt.Fprintf(&sb, "fragment F%d on Query { ...F%d ...F%d }\n", i, i+1, i+1)
				}
				fmt.Fprintf(&sb, "fragment F%d on Query { n }\n", depth)
			}
			c.Fault("fragment-spread-bomb")
			c.WallGuard = 5 * time.Second
			c.WallNote = fmt.Sprintf("subscribe with a %d-byte query of %d nested double fragment spreads", sb.Len(), depth)
			desc = append(desc, fmt.Sprintf("bomb(%d)", depth))
			// an ordinary subscription otherwise: its result is { n }
			in := &instance{inst: len(h.instances), id: id, root: bombRoot, text: sb.String()}
			h.instances = append(h.instances, in)
			h.send("subscribe", id, map[string]interface{}{"query": in.text, "variables": map[string]interface{}{"inst": in.inst, "t": true, "f": false}}, in)
		case op == 10 && h.faulty && c.Choose(2, "garbage-or-doomed") == 0:
			// well-formed GraphQL that cannot be executed (bad directive argument):
			// the subscription must be answered with an error and closed
			text, vars := doomedQuery(c)
			c.Fault("unexecutable-directive")
			desc = append(desc, "doomed("+text+")")
			in := &instance{inst: len(h.instances), id: id, root: &qset{sels: []*qsel{{name: "n"}}}, text: text, doomed: true, failedBeforeFirst: true}
			h.instances = append(h.instances, in)
			vars["inst"] = in.inst
			h.send("subscribe", id, map[string]interface{}{"query": text, "variables": vars}, in)
		case op == 10 && h.faulty && c.Choose(2, "garbage-or-wild") == 0:
			// arbitrary arguments and variables: answered with updates or with an
			// error, the connection keeps working
			text, vars := wildQuery(c, w)
			c.Fault("arbitrary-arguments")
			desc = append(desc, "wild("+text+")")
			in := &instance{inst: len(h.instances), id: id, root: &qset{}, text: text, wild: true}
			h.instances = append(h.instances, in)
			vars["inst"] = in.inst
			h.send("subscribe", id, map[string]interface{}{"query": text, "variables": vars}, in)
		case op == 10 && h.faulty:
			desc = append(desc, "garbage")
			c.Fault("garbage-envelope")
			h.sendGarbage(id)
		default:
			if h.faulty {
				// make a datum fail transiently during recomputations
				h.armTransient()
			}
		}
	}
	c.Describe("client: %s", strings.Join(desc, " "))

	// ---- quiescence: writers stopped, 5 simulated minutes ----
	for i := 0; i < 600 && !envDone; i++ {
		simrt.Sleep(time.Second)
	}
	for k := range w.live.failNext {
		delete(w.live.failNext, k)
	}
	simrt.Sleep(5 * time.Minute)
	simrt.Logf("quiescence check")
	if !h.s.isClosed && !h.served {
		// the connection must still answer
		h.send("echo", "final-echo", nil, nil)
		simrt.Sleep(time.Second)
		if h.echoes["final-echo"] != 1 && !h.writeFailed {
			c.ViolateFor("C15,C02", "connection-dead", "the connection did not answer an echo at quiescence (got %d replies)", h.echoes["final-echo"])
		}
		if h.echoes["final-echo"] == 1 && !h.writeFailed {
			// the connection is alive and has answered everything before the
			// echo: every mutation sent under an id of its own was answered,
			// with a result or with an error
			for _, id := range sortedKeys(h.mutates) {
				if strings.HasPrefix(id, "m") && h.results[id]+h.errorsByID[id] == 0 {
					c.ViolateFor("C16,C17", "mutation-not-answered", "the mutate message with id %s got neither a result nor an error envelope", id)
				}
			}
		}
		for _, in := range h.instances {
			if in.inBackend > 0 {
				// its computation is still waiting in a hanging backend call: it has
				// neither succeeded nor reported a failure yet
				c.Probe("instance-waiting-in-a-hanging-backend-call-at-quiescence")
				continue
			}
			if in.accepted && in.failedBeforeFirst && !in.gotFirst && in.errorEnvs == 0 && !in.failedHard && !in.clientUnsub && !h.writeFailed {
				c.ViolateFor("C16", "initial-failure-not-reported", "the first computation of instance %d (id %s) failed with an ordinary error but the client got neither an update nor an error envelope", in.inst, in.id)
			}
			// (if the socket broke during this very check - the echo's write failed -
			// the connection is being torn down, a computation released by that may
			// only now be reporting its failure, and the end-of-run accounting below
			// is what judges the outcome)
			if in.accepted && !in.ended && (in.initialErr || in.failedHard) && !h.s.isClosed && !h.writeFailed {
				c.ViolateFor("C16,C17,C02", "failed-subscription-not-closed", "instance %d (id %s) failed (%s) but is still registered 5 simulated minutes later: no Unsubscribe was logged, its id and its slot stay taken", in.inst, in.id, map[bool]string{true: "initial failure, error envelope sent", false: "a resolver returned context.Canceled"}[in.initialErr])
			}
			if !in.accepted || in.ended || in.initialErr || in.failedHard {
				continue
			}
			want, ok := h.expected(in)
			if !ok {
				continue
			}
			if !in.gotFirst {
				c.ViolateFor("C02", "no-update-for-accepted-subscription", "instance %d (id %s) was accepted but never received an update", in.inst, in.id)
				continue
			}
			got, _ := normalize(in.state)
			if !reflect.DeepEqual(got, want) {
				c.ViolateFor("C02,C15", "client-state-diverged", "instance %d (id %s): the client's folded state differs from the query result on the final data\nquery: %s\nclient: %s\n  want: %s", in.inst, in.id, in.text, short(got), short(want))
			}
			// and the same against a fresh Execute by thunder itself
			if q, err := graphql.Parse(in.text, dirVars()); err == nil && graphql.PrepareQuery(context.Background(), schema.Query, q.SelectionSet) == nil {
				saved := w.live
				w.live = nil
				val, err := graphql.NewExecutor(graphql.NewImmediateGoroutineScheduler()).Execute(context.Background(), schema.Query, nil, q)
				w.live = saved
				if err == nil {
					fresh, _ := normalize(stripKeys(val))
					if !reflect.DeepEqual(got, fresh) {
						c.ViolateFor("C02", "client-state-differs-from-fresh-execute", "instance %d (id %s): folded client state differs from a fresh Execute\nclient: %s\n fresh: %s", in.inst, in.id, short(got), short(fresh))
					}
				}
			}
		}
	}

	// ---- end of the connection ----
	if c.Choose(2, "cancel-before-close") == 1 {
		c.Fault("ctx-cancel")
		h.ctxCancelled = true
		cancelCtx()
		simrt.Sleep(time.Duration(c.Choose(3, "cancel-gap")) * 100 * time.Millisecond)
	}
	h.clientClosed = true
	h.s.Close()
	simrt.Sleep(5 * time.Minute)
	settleTasks()
	h.lifecycleChecks()
}

func (h *connHarness) sendGarbage(id string) {
	variants := [][]byte{
		[]byte(`{"id": 5, "type": "subscribe"}`),
		[]byte(`{"id": "` + id + `", "type": "subscribe", "message": "not an object"}`),
		[]byte(`{"id": "` + id + `", "type": "subscribe", "message": {"query": 7}}`),
		[]byte(`{"id": "` + id + `", "type": "frobnicate"}`),
		[]byte(`{"id": "` + id + `", "type": "subscribe", "message": {"query": "{ nope { x } }"}}`),
		[]byte(`{"id": "` + id + `", "type": "mutate", "message": {"query": "mutation { nope }"}}`),
		[]byte(`[1,2,3]`),
		[]byte(`{"id": "` + id + `", "type": "subscribe", "message": {"query": "{ as { id ", "variables": null}}`),
	}
	k := h.c.Choose(len(variants), "garbage-kind")
	idx := len(h.sent)
	h.send("garbage", id, variants[k], nil)
	if k == 0 || k == 6 {
		return // the envelope itself does not parse: the server may drop the connection
	}
	// a well-formed envelope with bad content must be answered with an error
	// envelope and the connection must keep working
	go func() {
		for h.processed <= idx && !h.served && !h.s.isClosed {
			simrt.Sleep(time.Millisecond)
		}
		if h.processed <= idx {
			// the read loop ended before asking for the next message: this is the
			// message it stopped on only if it was read at all
			if !h.clientClosed && h.s.failWrite == 0 && !h.writeFailed && h.s.readCalls == idx+1 {
				h.c.ViolateFor("C15", "connection-dropped-on-bad-input", "the server dropped the connection instead of answering the malformed message %s", variants[k])
			}
			return
		}
		if h.loopErrors[idx] == 0 && !h.writeFailed {
			h.c.ViolateFor("C15", "no-reply-to-bad-input", "the server did not answer the malformed message %s with an error envelope", variants[k])
		}
	}()
}

// armFailure makes the resolver of one datum needed by the instance's query
// fail on its next n invocations.
func (h *connHarness) armFailure(in *instance, kind, n int) {
	keys := h.neededKeys(in)
	if len(keys) == 0 {
		return
	}
	l := h.w.live
	// A computation reports the first error it records. A context.Canceled
	// failure (kind 4) ends the subscription only if it is the error reported,
	// so it is never armed together with another failure.
	for k, left := range l.failNext {
		if left > 0 && (kind == 4 || l.failKind[k] == 4) {
			return
		}
	}
	k := keys[h.c.Choose(len(keys), "failure-key")]
	l.failNext[k] = n
	l.failKind[k] = kind
}

func (h *connHarness) armTransient() {
	var insts []*instance
	for _, in := range h.instances {
		if in.accepted && !in.ended {
			insts = append(insts, in)
		}
	}
	if len(insts) == 0 {
		return
	}
	in := insts[h.c.Choose(len(insts), "transient-inst")]
	h.armFailure(in, h.c.Choose(7, "failure-kind")+1, 1+h.c.Choose(2, "failure-count"))
	h.c.Fault("transient-failure-armed")
	// and make sure the datum is re-read
	for k, n := range h.w.live.failNext {
		if n > 0 {
			h.w.live.invalidate(k)
		}
	}
}

// neededKeys lists the datum keys the reference evaluator touches for the
// instance's query on the current world.
func (h *connHarness) neededKeys(in *instance) []string {
	rec := &evaluator{w: h.w, touched: map[string]bool{}}
	rec.object("Query", 0, in.root, nil)
	var keys []string
	for k := range rec.touched {
		keys = append(keys, k)
	}
	return keys
}

func (h *connHarness) lifecycleChecks() {
	c := h.c
	// a mutation runs once: one result at most per mutate message, and the
	// read-modify-write resolver executed at most once per message that asked for it
	for _, id := range sortedKeys(h.results) {
		if h.results[id] > h.mutates[id] {
			c.ViolateFor("C17,C02", "mutation-answered-twice", "%d result envelopes for id %s but only %d mutate messages were sent with it", h.results[id], id, h.mutates[id])
		}
	}
	if h.w.counterRuns > h.bumpNSent {
		c.ViolateFor("C17,C02", "mutation-executed-twice", "the read-modify-write mutation resolver ran %d times for %d mutate messages", h.w.counterRuns, h.bumpNSent)
	}
	if !h.served {
		c.ViolateFor("C15,C17", "serve-never-returned", "ServeJSONSocket did not return within 5 simulated minutes after the socket was closed")
	}
	// exactly one Unsubscribe for every Subscribe
	open := map[string]int{}
	for _, e := range h.logs {
		if e.sub {
			open[e.id]++
			if open[e.id] > 1 {
				c.ViolateFor("C17", "subscribe-logged-twice", "Subscribe(%s) logged again without an Unsubscribe in between", e.id)
			}
		} else if open[e.id] > 0 {
			open[e.id]--
		}
	}
	for id, n := range open {
		if n > 0 {
			reason := "unknown"
			for _, in := range h.instances {
				if in.id == id && in.accepted {
					reason = in.endReason
				}
			}
			c.ViolateFor("C17", "unsubscribe-not-logged/ended-by="+reason, "Subscribe(%s) was logged but no Unsubscribe followed by the end of the run (subscription ended by: %s)", id, reason)
		}
	}
	// nothing runs or is written for an instance after it ended
	for _, inv := range h.w.live.invocations {
		if inv.inst < 0 || inv.inst >= len(h.instances) {
			continue
		}
		in := h.instances[inv.inst]
		if in.ended && inv.seq > in.endSeq {
			c.ViolateFor("C17", "resolver-ran-after-subscription-ended/"+in.endReason, "resolver for %s started at event %d for instance %d (id %s), which ended at event %d (%s)", inv.key, inv.seq, in.inst, in.id, in.endSeq, in.endReason)
			break
		}
		if h.served && inv.seq > h.servedSeq {
			c.ViolateFor("C17", "resolver-ran-after-connection-closed", "resolver for %s started at event %d for instance %d after ServeJSONSocket had returned (event %d)", inv.key, inv.seq, in.inst, h.servedSeq)
			break
		}
	}
	for _, m := range h.s.writes {
		if h.served && m.seq > h.servedSeq {
			c.ViolateFor("C17", "write-after-connection-closed", "envelope written after ServeJSONSocket returned: %s", m.raw)
			break
		}
	}
	// every reactive resource released exactly once
	for _, r := range h.w.live.all {
		if r.cleaned != 1 {
			c.ViolateFor("C17", fmt.Sprintf("resource-not-released/%d", min(r.cleaned, 2)), "resource %d of datum %s (subscription instance %d) was cleaned up %d times by the end of the run (want 1)", r.id, r.key, r.inst, r.cleaned)
			break
		}
	}
	for _, t := range simrt.Alive() {
		if strings.HasPrefix(t.Name, "reactive.") || strings.HasPrefix(t.Name, "graphql.") || strings.HasPrefix(t.Name, "batch.") {
			c.ViolateFor("C15,C17", "task-left-behind/"+t.Name, "task %s still alive (%s %s) 5 simulated minutes after the connection closed", t.Name, t.State, t.On)
		}
	}
}

func sortedKeys(m map[string]int) []string {
	var out []string
	for k := range m {
		out = append(out, k)
	}
	sort.Strings(out)
	return out
}
