package h1

import (
	"bytes"
	"context"
	"encoding/json"
	"net/http/httptest"
	"reflect"
	"strings"
	"time"

	"github.com/samsarahq/thunder/graphql"
	"simrt"
	"simrt/runner"
)

func init() {
	runner.Register("C15", runner.Scenario{Name: "http", Options: func(string) simrt.Options {
		return simrt.Options{MaxSteps: 100000, RotateMaps: true}
	}, Body: httpBody})
	runner.Register("C15", runner.Scenario{Name: "http-slow-node", Options: func(string) simrt.Options {
		return simrt.Options{MaxSteps: 100000, RotateMaps: true, StallPermille: 15, StallMax: 10 * time.Second}
	}, Body: httpBody})
}

// httpBody: one-shot requests through HTTPHandler.ServeHTTP with the request
// context cancelled at an arbitrary step (client gone), resolver panics and
// concurrent writers.
func httpBody(c *runner.Ctx) {
	w := newWorld(c)
	w.live = &liveState{w: w, trackers: map[string][]*liveRes{}, failNext: map[string]int{}, failKind: map[string]int{}}
	c.Class = "http"
	w.latency = c.Choose(2, "latency-on") == 1
	for _, f := range computedFields {
		w.modes[f] = fieldMode{mode: c.Choose(5, "mode")}
	}
	schema, err := w.buildSchemaWithMutation()
	if err != nil {
		c.Violate("schema-build-failed", "%v", err)
		return
	}
	handler := graphql.HTTPHandler(schema)
	nReq := 1 + c.Choose(3, "requests")
	type request struct {
		idx       int
		text      string
		root      *qset
		cancelAt  int // 0 never, 1 before the call, 2.. after a delay
		returned  bool
		cancelled bool
		body      string
		panics    bool
		doomed    bool
		wild      bool
		vars      map[string]interface{}
	}
	var reqs []*request
	for i := 0; i < nReq; i++ {
		g := &gen{c: c, w: w, budget: 10, rootTN: true, bareFrags: true, unionFrags: c.Choose(4, "union-type-fragments") == 1}
		root := g.genSet("Query", 0)
		if c.Choose(4, "directives") == 1 {
			g.dirs = true
			g.decorate(root)
		}
		r := &request{idx: i, root: root, text: g.text(root, "")}
		if g.dirs {
			r.vars = dirVars()
		}
		if c.Choose(6, "doomed-request") == 1 {
			c.Fault("unexecutable-directive")
			r.doomed = true
			r.text, r.vars = doomedQuery(c)
		}
		if !r.doomed && c.Choose(6, "wild-request") == 1 {
			c.Fault("arbitrary-arguments")
			r.wild = true
			r.text, r.vars = wildQuery(c, w)
		}
		r.cancelAt = c.Biased(6, 400, "http-cancel")
		if c.Biased(4, 750, "http-panic") > 0 {
			r.panics = true
		}
		reqs = append(reqs, r)
		c.Describe("request %d cancel=%d: %s", i, r.cancelAt, r.text)
	}
	// writers
	go func() {
		for i, n := 0, c.Choose(5, "env-writes"); i < n; i++ {
			simrt.Sleep(time.Duration(c.Choose(6, "env-sleep")) * time.Millisecond)
			w.live.mutate()
			c.Fault("invalidate")
		}
	}()
	for _, r := range reqs {
		r := r
		go func() {
			simrt.Sleep(time.Duration(c.Choose(4, "req-delay")) * time.Millisecond)
			ctx, cancel := context.WithCancel(context.Background())
			defer cancel()
			vars := r.vars
			if vars == nil {
				vars = map[string]interface{}{}
			}
			body, _ := json.Marshal(map[string]interface{}{"query": r.text, "variables": vars})
			req := httptest.NewRequest("POST", "/graphql", bytes.NewReader(body)).WithContext(ctx)
			rec := httptest.NewRecorder()
			if r.panics && !r.doomed && !r.wild {
				ev := &evaluator{w: w, touched: map[string]bool{}}
				ev.object("Query", 0, r.root, nil)
				for k := range ev.touched {
					w.live.failNext[k] = 1
					w.live.failKind[k] = 3
					break
				}
			}
			switch {
			case r.cancelAt == 1:
				c.Fault("ctx-cancel-before-request")
				r.cancelled = true
				cancel()
			case r.cancelAt >= 2:
				d := time.Duration(r.cancelAt-2) * time.Millisecond
				go func() {
					simrt.Sleep(d)
					simrt.Yield()
					c.Fault("ctx-cancel-during-request")
					r.cancelled = true
					cancel()
				}()
			}
			c.NonTrivial()
			handler.ServeHTTP(rec, req)
			r.returned = true
			r.body = rec.Body.String()
			simrt.Logf("request %d returned: %s", r.idx, strings.SplitN(r.body, "\\n", 2)[0])
		}()
	}
	simrt.Sleep(5 * time.Minute)
	settleTasks()
	anyPanics := false
	for _, r := range reqs {
		anyPanics = anyPanics || r.panics
	}
	for _, r := range reqs {
		if !r.returned {
			key := "http-handler-never-returned"
			if r.cancelAt == 1 {
				key += "/cancelled-before-first-run"
			} else if r.cancelled {
				key += "/cancelled-during-request"
			}
			c.Violate(key, "HTTPHandler.ServeHTTP did not return within 5 simulated minutes (request %d, context cancelled: %v)", r.idx, r.cancelled)
			continue
		}
		if strings.Contains(r.body, "SECRET-panic") && !strings.Contains(r.body, "errors") {
			c.Violate("panic-leaked-into-data", "%s", r.body)
		}
		if r.wild {
			// arbitrary arguments: data or an error, as long as it is an answer
			if !r.cancelled {
				var resp map[string]interface{}
				if err := json.Unmarshal([]byte(r.body), &resp); err != nil {
					c.Violate("http-response-not-json", "%q: %v\nquery: %s variables: %v", r.body, err, r.text, r.vars)
				}
			}
			continue
		}
		if r.doomed && !r.cancelled {
			var resp struct {
				Data   interface{} `json:"data"`
				Errors []string    `json:"errors"`
			}
			if err := json.Unmarshal([]byte(r.body), &resp); err != nil {
				c.Violate("http-response-not-json", "%q: %v", r.body, err)
			} else if len(resp.Errors) == 0 || resp.Data != nil {
				c.Violate("unexecutable-query-answered-with-data", "request %d cannot be executed (bad @skip/@include argument) but was answered with %s\nquery: %s variables: %v", r.idx, r.body, r.text, r.vars)
			}
			continue
		}
		if !r.cancelled && !anyPanics {
			// an undisturbed request answers with the query result at some moment;
			// with no writer at all it must equal the reference
			var resp struct {
				Data   interface{} `json:"data"`
				Errors []string    `json:"errors"`
			}
			if err := json.Unmarshal([]byte(r.body), &resp); err != nil {
				c.Violate("http-response-not-json", "%q: %v", r.body, err)
				continue
			}
			if len(resp.Errors) > 0 {
				c.Violate("http-unexpected-error", "request %d failed: %v\nquery: %s", r.idx, resp.Errors, r.text)
				continue
			}
			if w.live.writes == 0 {
				ev := &evaluator{w: w}
				want := ev.object("Query", 0, r.root, nil)
				delete(want.(map[string]interface{}), "__key")
				wantN, _ := normalize(want)
				if !reflect.DeepEqual(resp.Data, wantN) {
					c.Violate("http-result-differs", "request %d: %s\n got: %s\nwant: %s", r.idx, r.text, short(resp.Data), short(wantN))
				}
			}
		}
	}
	for _, t := range simrt.Alive() {
		if strings.HasPrefix(t.Name, "reactive.") || strings.HasPrefix(t.Name, "graphql.") || strings.HasPrefix(t.Name, "batch.") {
			c.Violate("task-left-behind/"+t.Name, "task %s still alive (%s %s) 5 simulated minutes after the requests", t.Name, t.State, t.On)
		}
	}
	for _, r := range w.live.all {
		if r.cleaned != 1 {
			c.Violate("resource-not-released-after-request", "resource of datum %s was cleaned up %d times after all requests finished (want 1)", r.key, r.cleaned)
			break
		}
	}
}
