package h1

import (
	"context"
	"errors"
	"fmt"

	"github.com/samsarahq/thunder/graphql"
	"github.com/samsarahq/thunder/reactive"
	"simrt"
)

// liveState makes the world a correct reactive application, in the way
// livesql is one: a reader creates a resource for the datum it is about to
// read, registers it with the datum's tracker and with the computation
// (AddDependency) and only then reads; a writer changes the datum first and
// then invalidates every resource registered for it.
type liveState struct {
	w        *world
	trackers map[string][]*liveRes
	all      []*liveRes
	// invocations of resolvers, stamped with the subscription instance they
	// serve (taken from the context, put there by a connection middleware)
	invocations []invocation
	// transient failures: the next n invocations of a datum's resolver fail
	failNext map[string]int
	failKind map[string]int
	// kind of the failure already injected into the computation in progress, per instance
	execFired map[int]int
	writes    int
	// onCanceled is told which subscription instance got a context.Canceled
	// error from a resolver
	onCanceled func(inst int)
	// onFailure is told which instance got an ordinary (non-cancellation) failure
	onFailure func(inst int)
}

type liveRes struct {
	id      int
	key     string
	inst    int
	res     *reactive.Resource
	cleaned int
}

type invocation struct {
	inst int
	key  string
	seq  uint64
}

type instKey struct{}

func instOf(ctx context.Context) int {
	if v, ok := ctx.Value(instKey{}).(int); ok {
		return v
	}
	return -1
}

func (l *liveState) dep(ctx context.Context, field string, id int64) error {
	key := fmt.Sprintf("%s/%d", field, id)
	inst := instOf(ctx)
	l.invocations = append(l.invocations, invocation{inst, key, simrt.Seq()})
	r := &liveRes{id: len(l.all), key: key, inst: inst, res: reactive.NewResource()}
	l.all = append(l.all, r)
	l.trackers[key] = append(l.trackers[key], r)
	r.res.Cleanup(func() {
		r.cleaned++
		if r.cleaned > 1 {
			l.w.c.ViolateFor("C17", "resource-cleaned-twice", "resource %d of datum %s (subscription instance %d) cleaned up %d times", r.id, r.key, r.inst, r.cleaned)
		}
		list := l.trackers[r.key]
		for i, x := range list {
			if x == r {
				l.trackers[r.key] = append(append([]*liveRes{}, list[:i]...), list[i+1:]...)
				break
			}
		}
	})
	reactive.AddDependency(ctx, r.res, nil)
	if n := l.failNext[key]; n > 0 {
		l.failNext[key] = n - 1
		// A computation reports one of the errors its resolvers return. Whether a
		// bare context.Canceled (kind 4) is the one reported decides what must
		// happen to the subscription, so it is never mixed with another failure
		// inside one computation: the later of the two resolvers succeeds instead.
		if prev, ok := l.execFired[inst]; ok && (prev == 4 || l.failKind[key] == 4) {
			return nil
		}
		if l.execFired == nil {
			l.execFired = map[int]int{}
		}
		l.execFired[inst] = l.failKind[key]
		if k := l.failKind[key]; ((k >= 1 && k <= 3) || k == 7) && l.onFailure != nil {
			l.onFailure(inst)
		}
		switch l.failKind[key] {
		case 1:
			l.w.c.Fault("resolver-error")
			return errors.New("SECRET-transient-" + key)
		case 2:
			l.w.c.Fault("resolver-safe-error")
			return graphql.NewSafeError("safe-transient-%s", key)
		case 3:
			l.w.c.Fault("resolver-panic")
			panic("SECRET-panic-" + key)
		case 7:
			// an ordinary failure that wraps a client-safe error further down: the
			// failure itself is not marked safe, so its text stays on the server
			l.w.c.Fault("resolver-error-wrapping-safe-error")
			return fmt.Errorf("SECRET-outer-%s: %w", key, graphql.NewSafeError("safe-BURIED-%s", key))
		case 5:
			// an ordinary failure whose cause happens to be a cancellation further
			// down (for instance a timed-out backend call): not a cancellation of
			// the subscription
			l.w.c.Fault("resolver-error-wrapping-canceled")
			if l.onFailure != nil {
				l.onFailure(inst)
			}
			return fmt.Errorf("SECRET-backend-call-failed: %w", context.Canceled)
		case 6:
			l.w.c.Fault("resolver-safe-error-wrapping-canceled")
			if l.onFailure != nil {
				l.onFailure(inst)
			}
			return graphql.WrapAsSafeError(context.Canceled, "safe-backend-busy-%s", key)
		case 4:
			// a resolver whose own work was cancelled (for instance a database
			// call): the subscription ends itself
			l.w.c.Fault("resolver-context-canceled")
			if l.onCanceled != nil {
				l.onCanceled(inst)
			}
			return context.Canceled
		}
	}
	return nil
}

// invalidate is the writer's second step (the datum has been changed already).
func (l *liveState) invalidate(key string) {
	l.writes++
	list := append([]*liveRes{}, l.trackers[key]...)
	simrt.Logf("write %s -> invalidate %d resources", key, len(list))
	for _, r := range list {
		if l.w.c.Choose(2, "strobe") == 1 {
			r.res.Strobe()
		} else {
			r.res.Invalidate()
		}
	}
}

// mutate changes one randomly chosen datum and invalidates its readers.
func (l *liveState) mutate() string {
	w, c := l.w, l.w.c
	redrawList := func(n int, old []int, nilEntries bool) []int {
		switch c.Choose(5, "mut-list") {
		case 0: // shuffle
			out := append([]int{}, old...)
			for i := len(out) - 1; i > 0; i-- {
				j := c.Choose(i+1, "shuffle")
				out[i], out[j] = out[j], out[i]
			}
			return out
		case 1: // append
			return append(append([]int{}, old...), c.Choose(n, "mut-el"))
		case 2: // remove
			if len(old) > 0 {
				i := c.Choose(len(old), "mut-rm")
				return append(append([]int{}, old[:i]...), old[i+1:]...)
			}
			return []int{c.Choose(n, "mut-el")}
		case 3: // nil / empty
			if c.Choose(2, "mut-nil") == 1 {
				return nil
			}
			return []int{}
		}
		out := make([]int, 1+c.Choose(4, "mut-len"))
		for i := range out {
			out[i] = c.Choose(n, "mut-el")
			if nilEntries && c.Choose(6, "mut-elnil") == 0 {
				out[i] = -1
			}
		}
		return out
	}
	anyRef := func() ref {
		switch c.Choose(5, "mut-ref") {
		case 0:
			return ref{}
		case 4:
			return ref{"F", int64(c.Choose(w.nA, "mut-ref-f"))}
		case 1:
			return ref{"A", int64(c.Choose(w.nA, "mut-ref-a"))}
		case 2:
			return ref{"B", int64(c.Choose(w.nB, "mut-ref-b"))}
		}
		return ref{"C", int64(c.Choose(w.nC, "mut-ref-c"))}
	}
	var key string
	switch c.Choose(13, "mut-kind") {
	case 0:
		id := 100 + c.Choose(w.nA, "mut-id")
		key = fmt.Sprintf("A.tag/%d", id)
		w.ver[key]++
	case 1:
		id := 100 + c.Choose(w.nA, "mut-id")
		key = fmt.Sprintf("A.score/%d", id)
		w.ver[key]++
	case 2:
		id := 200 + c.Choose(w.nB, "mut-id")
		key = fmt.Sprintf("B.label/%d", id)
		w.ver[key]++
	case 3:
		id := 300 + c.Choose(w.nC, "mut-id")
		key = fmt.Sprintf("C.w/%d", id)
		w.ver[key]++
	case 4:
		i := c.Choose(w.nA, "mut-id")
		key = fmt.Sprintf("A.b/%d", 100+i)
		w.aB[i] = c.Choose(w.nB+1, "mut-aB") - 1
	case 5:
		i := c.Choose(w.nA, "mut-id")
		key = fmt.Sprintf("A.bs/%d", 100+i)
		w.aBs[i] = redrawList(w.nB, w.aBs[i], true)
	case 6:
		i := c.Choose(w.nA, "mut-id")
		key = fmt.Sprintf("A.u/%d", 100+i)
		w.aU[i] = anyRef()
	case 7:
		i := c.Choose(w.nB, "mut-id")
		key = fmt.Sprintf("B.a/%d", 200+i)
		w.bA[i] = c.Choose(w.nA+1, "mut-bA") - 1
	case 8:
		i := c.Choose(w.nB, "mut-id")
		key = fmt.Sprintf("B.cs/%d", 200+i)
		w.bCs[i] = redrawList(w.nC, w.bCs[i], true)
	case 9:
		key = "Query.as/0"
		w.rootAs = redrawList(w.nA, w.rootAs, true)
	case 10:
		key = "Query.us/0"
		n := c.Choose(5, "mut-us")
		w.rootUs = nil
		for i := 0; i < n; i++ {
			w.rootUs = append(w.rootUs, anyRef())
		}
	case 11:
		key = "Query.u1/0"
		w.rootU1 = anyRef()
	default:
		key = "Query.bs/0"
		l2 := redrawList(w.nB, w.rootBs, false)
		w.rootBs = l2
	}
	l.invalidate(key)
	return key
}
