package h1

import (
	"context"
	"encoding/json"
	"errors"
	"fmt"
	"reflect"
	"sort"
	"strings"
	"time"

	"github.com/samsarahq/thunder/federation"
	"github.com/samsarahq/thunder/graphql"
	"github.com/samsarahq/thunder/graphql/introspection"
	"github.com/samsarahq/thunder/graphql/schemabuilder"
	"github.com/samsarahq/thunder/thunderpb"
	"simrt"
	"simrt/runner"
)

func init() {
	opts := func(string) simrt.Options { return simrt.Options{MaxSteps: 400000, RotateMaps: true} }
	for _, p := range []string{"C06", "C15"} {
		runner.Register(p, runner.Scenario{Name: "federation", Options: opts, Body: fedBody})
		runner.Register(p, runner.Scenario{Name: "federation-preempt", Options: func(string) simrt.Options {
			return simrt.Options{MaxSteps: 400000, RotateMaps: true, ParkPermille: 5, PausePermille: 4, MapPausePermille: 300, SpawnPausePermille: 100}
		}, Body: fedBody})
	}
}

// Shadow object types of the non-root services: the federated key is the id.
type SA struct {
	ID int64 `graphql:"id"`
}

// SA2 is the shadow of A on a service version that wants two key fields.
type SA2 struct {
	ID   int64  `graphql:"id"`
	Name string `graphql:"name"`
}
type SB struct {
	ID int64 `graphql:"id,key"`
}
type SC struct {
	ID int64 `graphql:"id"`
}

var fedScalarFields = []string{"A.tag", "A.score", "B.label", "C.w"}

// fedWorld distributes the logical schema of the executor harness over
// services: s1 is the root service of every object type (it serves the root
// fields, the struct fields and every field returning an object), the scalar
// computed fields live on any non-empty subset of s1, s2, s3.
type fedWorld struct {
	w      *world
	homes  map[string][]string // field -> services that serve it
	faulty bool
	// introspection (schema refresh) requests fail until this simulated time: a
	// service that is restarting during a roll-out
	refreshOutageUntil time.Duration
	// wideKeys: services whose current version identifies an A by (id, name)
	// and refuses to answer for a key whose name does not fit the id
	wideKeys      map[string]bool
	byTask        map[int]*fedRequest // request by the id of the task that called Execute
	selected      map[string]string   // what the ServiceSelector answered, by "Type.field"
	serviceErrors int
	requestErrors []string
}

// buildService builds the schema of one service with the real schemabuilder.
func (fw *fedWorld) buildService(name string) (*graphql.Schema, error) {
	w := fw.w
	s := schemabuilder.NewSchemaWithName(name)
	serves := func(field string) bool {
		for _, h := range fw.homes[field] {
			if h == name {
				return true
			}
		}
		return false
	}
	if name == "s1" {
		q := s.Query()
		q.FieldFunc("as", func(ctx context.Context) ([]*A, error) {
			if err := w.point(ctx, "Query.as", 0); err != nil {
				return nil, err
			}
			var out []*A
			for _, i := range w.rootAs {
				out = append(out, w.a(i))
			}
			return out, nil
		})
		q.FieldFunc("a", func(ctx context.Context, args struct{ I int64 }) (*A, error) {
			if err := w.point(ctx, "Query.a", args.I); err != nil {
				return nil, err
			}
			if args.I < 0 || int(args.I) >= w.nA {
				return nil, nil
			}
			return w.as[args.I], nil
		})
		q.FieldFunc("us", func(ctx context.Context) ([]*U, error) {
			if err := w.point(ctx, "Query.us", 0); err != nil {
				return nil, err
			}
			var out []*U
			for _, r := range w.rootUs {
				out = append(out, w.u(r))
			}
			return out, nil
		})
		q.FieldFunc("u1", func(ctx context.Context) (*U, error) {
			if err := w.point(ctx, "Query.u1", 0); err != nil {
				return nil, err
			}
			return w.u(w.rootU1), nil
		})
		q.FieldFunc("bs", func(ctx context.Context) ([]B, error) {
			if err := w.point(ctx, "Query.bs", 0); err != nil {
				return nil, err
			}
			var out []B
			for _, i := range w.rootBs {
				out = append(out, *w.bs[i])
			}
			return out, nil
		})
		q.FieldFunc("n", func() int64 { return 42 })
		s.Object("P", P{})
		s.Mutation().FieldFunc("touchP", func(ctx context.Context, args struct{ I int64 }) (*P, error) {
			return w.touchP(args.I), nil
		})
		s.Mutation().FieldFunc("touchA", func(ctx context.Context, args struct{ I int64 }) (*A, error) {
			if err := w.point(ctx, "Mutation.touchA", args.I); err != nil {
				return nil, err
			}
			if args.I < 0 || int(args.I) >= w.nA {
				return nil, nil
			}
			return w.as[args.I], nil
		})

		// the federated key of every type is its id, on every service
		oa := s.Object("A", A{}, schemabuilder.FetchObjectFromKeys(func(args struct{ Keys []*SA }) []*A {
			var out []*A
			for _, k := range args.Keys {
				out = append(out, w.as[k.ID-100])
			}
			return out
		}))
		ob := s.Object("B", B{}, schemabuilder.FetchObjectFromKeys(func(args struct{ Keys []*SB }) []*B {
			var out []*B
			for _, k := range args.Keys {
				out = append(out, w.bs[k.ID-200])
			}
			return out
		}))
		oc := s.Object("C", C{}, schemabuilder.FetchObjectFromKeys(func(args struct{ Keys []*SC }) []*C {
			var out []*C
			for _, k := range args.Keys {
				out = append(out, w.cs[k.ID-300])
			}
			return out
		}))
		s.Object("F", F{}) // a union member that lives on the root service only
		oa.FieldFunc("b", func(ctx context.Context, a *A) (*B, error) {
			if err := w.point(ctx, "A.b", a.ID); err != nil {
				return nil, err
			}
			return w.b(w.aB[a.ID-100]), nil
		})
		oa.FieldFunc("bs", func(ctx context.Context, a *A) ([]*B, error) {
			if err := w.point(ctx, "A.bs", a.ID); err != nil {
				return nil, err
			}
			l := w.aBs[a.ID-100]
			if l == nil {
				return nil, nil
			}
			out := []*B{}
			for _, i := range l {
				out = append(out, w.b(i))
			}
			return out, nil
		})
		oa.FieldFunc("u", func(ctx context.Context, a *A) (*U, error) {
			if err := w.point(ctx, "A.u", a.ID); err != nil {
				return nil, err
			}
			return w.u(w.aU[a.ID-100]), nil
		})
		ob.FieldFunc("a", func(ctx context.Context, b *B) (*A, error) {
			if err := w.point(ctx, "B.a", b.ID); err != nil {
				return nil, err
			}
			return w.a(w.bA[b.ID-200]), nil
		})
		ob.FieldFunc("cs", func(ctx context.Context, b *B) ([]*C, error) {
			if err := w.point(ctx, "B.cs", b.ID); err != nil {
				return nil, err
			}
			l := w.bCs[b.ID-200]
			if l == nil {
				return nil, nil
			}
			out := []*C{}
			for _, i := range l {
				out = append(out, w.cc(i))
			}
			return out, nil
		})
		if serves("A.tag") {
			oa.FieldFunc("tag", func(ctx context.Context, a *A, args struct{ X int64 }) (string, error) {
				if err := w.point(ctx, "A.tag", a.ID); err != nil {
					return "", err
				}
				return w.tagVal(a.ID, args.X), nil
			})
		}
		if serves("A.score") {
			oa.FieldFunc("score", func(ctx context.Context, a *A) (int64, error) {
				if err := w.point(ctx, "A.score", a.ID); err != nil {
					return 0, err
				}
				return w.scoreVal(a.ID), nil
			})
		}
		if serves("B.label") {
			ob.FieldFunc("label", func(ctx context.Context, b *B, args struct{ P *string }) (string, error) {
				if err := w.point(ctx, "B.label", b.ID); err != nil {
					return "", err
				}
				return w.labelVal(b.ID, args.P), nil
			})
		}
		if serves("C.w") {
			oc.FieldFunc("w", func(ctx context.Context, c *C) (int64, error) {
				if err := w.point(ctx, "C.w", c.ID); err != nil {
					return 0, err
				}
				return w.wVal(c.ID), nil
			})
		}
		return s.Build()
	}
	// a non-root service: shadow objects fetched from their keys
	s.Query().FieldFunc("ping_"+name, func() string { return name })
	if fw.wideKeys[name] && (serves("A.tag") || serves("A.score")) {
		oa := s.Object("A", SA2{}, schemabuilder.FetchObjectFromKeys(func(args struct{ Keys []*SA2 }) []*SA2 { return args.Keys }))
		fits := func(a *SA2) bool {
			return a.ID >= 100 && int(a.ID-100) < len(w.as) && w.as[a.ID-100].Name == a.Name
		}
		if serves("A.tag") {
			oa.FieldFunc("tag", func(ctx context.Context, a *SA2, args struct{ X int64 }) (string, error) {
				if err := w.point(ctx, "A.tag", a.ID); err != nil {
					return "", err
				}
				if !fits(a) {
					return fmt.Sprintf("WRONG-OBJECT(id=%d name=%q)", a.ID, a.Name), nil
				}
				return w.tagVal(a.ID, args.X), nil
			})
		}
		if serves("A.score") {
			oa.FieldFunc("score", func(ctx context.Context, a *SA2) (int64, error) {
				if err := w.point(ctx, "A.score", a.ID); err != nil {
					return 0, err
				}
				if !fits(a) {
					return -1, nil
				}
				return w.scoreVal(a.ID), nil
			})
		}
	} else if serves("A.tag") || serves("A.score") || serves("A.extra") {
		oa := s.Object("A", SA{}, schemabuilder.FetchObjectFromKeys(func(args struct{ Keys []*SA }) []*SA { return args.Keys }))
		if serves("A.extra") {
			// only exists after the service was redeployed
			oa.FieldFunc("extra", func(ctx context.Context, a *SA) (string, error) {
				return fmt.Sprintf("extra-%d", a.ID), nil
			})
		}
		if serves("A.tag") {
			oa.FieldFunc("tag", func(ctx context.Context, a *SA, args struct{ X int64 }) (string, error) {
				if err := w.point(ctx, "A.tag", a.ID); err != nil {
					return "", err
				}
				return w.tagVal(a.ID, args.X), nil
			})
		}
		if serves("A.score") {
			oa.FieldFunc("score", func(ctx context.Context, a *SA) (int64, error) {
				if err := w.point(ctx, "A.score", a.ID); err != nil {
					return 0, err
				}
				return w.scoreVal(a.ID), nil
			})
		}
	}
	if serves("B.label") {
		if serves("Query.bs2") {
			// a root field on a service that is not the home of B: the gateway
			// has to fetch everything but label from the root service, by key
			s.Query().FieldFunc("bs2", func(ctx context.Context) ([]*SB, error) {
				var out []*SB
				for _, i := range w.rootBs {
					out = append(out, &SB{ID: w.bs[i].ID})
				}
				return out, nil
			})
		}
		ob := s.Object("B", SB{}, schemabuilder.FetchObjectFromKeys(func(args struct{ Keys []*SB }) []*SB { return args.Keys }))
		ob.FieldFunc("label", func(ctx context.Context, b *SB, args struct{ P *string }) (string, error) {
			if err := w.point(ctx, "B.label", b.ID); err != nil {
				return "", err
			}
			return w.labelVal(b.ID, args.P), nil
		})
	}
	if serves("C.w") {
		oc := s.Object("C", SC{}, schemabuilder.FetchObjectFromKeys(func(args struct{ Keys []*SC }) []*SC { return args.Keys }))
		oc.FieldFunc("w", func(ctx context.Context, c *SC) (int64, error) {
			if err := w.point(ctx, "C.w", c.ID); err != nil {
				return 0, err
			}
			return w.wVal(c.ID), nil
		})
	}
	return s.Build()
}

// transport is the simulated network between the gateway and one service: it
// marshals the query as DirectExecutorClient does, adds latency, injects
// errors, records what the service received and calls the real
// federation.Server.
type transport struct {
	c    *runner.Ctx
	name string
	// oldSrv keeps answering the requests that were in flight when the service
	// was redeployed (fedRequest.drain: the old version is drained, not killed)
	oldSrv *federation.Server
	// introspected: schema fetches the current version has answered
	introspected int
	srv          *federation.Server
	requests     int
	faulty       bool
	fw           *fedWorld
}

func (t *transport) Execute(ctx context.Context, req *federation.QueryRequest) (*federation.QueryResponse, error) {
	marshaled, err := federation.MarshalQuery(req.Query)
	if err != nil {
		return nil, err
	}
	isIntrospection := len(req.Query.SelectionSet.Selections) > 0 && req.Query.SelectionSet.Selections[0].Name == "__schema"
	if !isIntrospection {
		t.requests++
		t.c.Probe("service-request")
		simrt.Logf("gateway -> %s: %s", t.name, printSelectionSet(req.Query.SelectionSet))
	}
	r, _ := ctx.Value(fedReqKey{}).(*fedRequest)
	if r != nil && !isIntrospection {
		r.hops++
	}
	switch d := t.c.Biased(5, 500, "service-delay"); {
	case d == 4 && t.faulty && !isIntrospection:
		// a slow service; like a real network client the transport gives up as
		// soon as the request's context is cancelled
		t.c.Fault("service-slow")
		tm := time.NewTimer(20 * time.Second)
		select {
		case <-tm.C:
		case <-ctx.Done():
			tm.Stop()
			return nil, ctx.Err()
		}
	case d > 0:
		simrt.Sleep(time.Duration(d) * 2 * time.Millisecond)
	default:
		simrt.Yield()
	}
	if isIntrospection && simrt.Now() < t.fw.refreshOutageUntil {
		t.c.Fault("schema-refresh-outage")
		return nil, errors.New("SECRET-service-restarting-" + t.name)
	}
	if t.faulty && t.c.Biased(2, 930, "service-error") > 0 {
		if isIntrospection {
			t.c.Fault("introspection-error")
		} else {
			t.c.Fault("service-error")
			t.fw.serviceErrors++
			if r != nil && r.firstErrorAt == 0 {
				r.firstErrorAt = simrt.Now() + 1
			}
		}
		return nil, errors.New("SECRET-service-unavailable-" + t.name)
	}
	srv := t.srv
	if t.oldSrv != nil && !isIntrospection && r != nil && r.drain {
		t.c.Probe("request-served-by-draining-version")
		srv = t.oldSrv
	}
	resp, err := srv.Execute(ctx, &thunderpb.ExecuteRequest{Query: marshaled})
	if err == nil && isIntrospection && srv == t.srv {
		t.introspected++
	}
	if err != nil {
		if !isIntrospection && !(r != nil && r.wild) {
			t.fw.requestErrors = append(t.fw.requestErrors, fmt.Sprintf("%s: %v", t.name, err))
		}
		return nil, err
	}
	return &federation.QueryResponse{Result: resp.Result}, nil
}

type fedReqKey struct{}

type fedRequest struct {
	startedAt time.Duration // simulated time (+1ns) at which gateway.Execute was called
	// lenient: began while a service version with another key set was being
	// rolled out and the gateway had not refreshed yet; it may fail
	lenient bool
	// drain: in flight when a service was redeployed with another key set; its
	// sub-queries keep going to the version that is being drained
	drain bool
	// planned: the gateway was seen planning this request (only observable when
	// the planner has a ServiceSelector); hops: sub-queries that reached a service
	planned      bool
	hops         int
	wild         bool // untrusted text: only "it returns" is checked
	vars         map[string]interface{}
	mutation     bool
	special      string        // "", "introspect-extra", "data-extra": issued after a service was redeployed with a new field
	firstErrorAt time.Duration // simulated time (+1ns) at which a service error was first returned for this request
	cancelledAt  time.Duration
	doneAt       time.Duration
	idx          int
	text         string
	root         *qset
	cancelAt     time.Duration // <0 never
	cancelled    bool
	done         bool
	val          interface{}
	err          error
	rejected     error
}

func fedBody(c *runner.Ctx) {
	w := newWorld(c)
	fw := &fedWorld{w: w, homes: map[string][]string{}, wideKeys: map[string]bool{}, byTask: map[int]*fedRequest{}, selected: map[string]string{}}
	fw.faulty = c.Choose(2, "class") == 1
	c.Class = "fault-free"
	if fw.faulty {
		c.Class = "faulty"
	}
	w.latency = c.Choose(2, "latency-on") == 1
	for _, f := range computedFields {
		w.modes[f] = fieldMode{}
	}
	nServices := 2 + c.Choose(2, "services")
	names := []string{"s1", "s2", "s3"}[:nServices]
	var homeDesc []string
	for _, f := range fedScalarFields {
		mask := 1 + c.Choose(1<<nServices-1, "field-home")
		for i, n := range names {
			if mask&(1<<i) != 0 {
				fw.homes[f] = append(fw.homes[f], n)
			}
		}
		homeDesc = append(homeDesc, fmt.Sprintf("%s@%s", f, strings.Join(fw.homes[f], "+")))
	}
	// the root field bs2 lives on one non-root service that also serves B.label
	bs2Home := ""
	for _, h := range fw.homes["B.label"] {
		if h != "s1" && c.Choose(2, "bs2-home") == 1 {
			bs2Home = h
			fw.homes["Query.bs2"] = []string{h}
			homeDesc = append(homeDesc, "Query.bs2@"+h)
			break
		}
	}
	// the last service may start out as a version that wants (id, name) as the
	// key of A and be redeployed later as one that wants the id only
	keyShrink := !fw.faulty && c.Choose(2, "key-shrink-redeploy") == 1
	for _, f := range []string{"A.tag", "A.score"} {
		for _, h := range fw.homes[f] {
			// (thunder wants every service that declares A to expose every key
			// field any service asks for: the id-only shadows of a third service
			// would not)
			if h != "s1" && h != names[nServices-1] {
				keyShrink = false
			}
		}
	}
	if keyShrink {
		fw.wideKeys[names[nServices-1]] = true
		homeDesc = append(homeDesc, "A-keyed-by-id+name@"+names[nServices-1])
	}
	c.Describe("world A=%d B=%d C=%d services=%v homes: %s", w.nA, w.nB, w.nC, names, strings.Join(homeDesc, " "))
	monolith, err := w.buildSchema()
	if err != nil {
		c.Violate("schema-build-failed", "monolith: %v", err)
		return
	}
	execs := map[string]federation.ExecutorClient{}
	var transports []*transport
	for _, n := range names {
		schema, err := fw.buildService(n)
		if err != nil {
			c.Violate("schema-build-failed", "service %s: %v", n, err)
			return
		}
		srv, err := federation.NewServer(schema)
		if err != nil {
			c.Violate("schema-build-failed", "server %s: %v", n, err)
			return
		}
		t := &transport{c: c, name: n, srv: srv, fw: fw}
		transports = append(transports, t)
		execs[n] = t
	}
	ctx, cancelGateway := context.WithCancel(context.Background())
	var syncer federation.SchemaSyncer = federation.NewIntrospectionSchemaSyncer(ctx, execs, nil)
	if c.Choose(2, "syncer-with-service-selector") == 1 {
		// an application's own SchemaSyncer, built from the exported pieces the
		// way IntrospectionSchemaSyncer is, whose planner has a ServiceSelector:
		// it decides which of several services that can resolve a field gets it
		syncer = &selectorSyncer{fw: fw, execs: execs}
		c.Describe("schema syncer with a ServiceSelector")
	}
	gateway, err := federation.NewExecutor(ctx, execs, &federation.SchemaSyncerConfig{
		SchemaSyncer:              syncer,
		SchemaSyncIntervalSeconds: func(context.Context) int64 { return 1 },
	})
	// the poller's ticker was created just now: refreshes start at tickBase + k s
	tickBase := simrt.Now()
	if err != nil {
		cancelGateway()
		c.Violate("gateway-setup-failed", "NewExecutor: %v", err)
		return
	}
	// faults only start once the gateway is up
	for _, t := range transports {
		t.faulty = fw.faulty
	}
	nReq := 1 + c.Choose(4, "requests")
	var reqs []*fedRequest
	for i := 0; i < nReq; i++ {
		g := &gen{c: c, w: w, budget: 12, noD: true, bs2: bs2Home != "", unionFrags: c.Choose(3, "union-type-fragments") == 1, bareFrags: true}
		var r *fedRequest
		if c.Choose(8, "untrusted-request") == 1 {
			// a text no well-behaved client would send: the gateway owes an answer
			// (data or an error), nothing else is predicted
			text, vars := wildQuery(c, w)
			c.Fault("untrusted-query-text")
			reqs = append(reqs, &fedRequest{idx: i, text: text, vars: vars, wild: true, cancelAt: -1})
			c.Describe("request %d (untrusted text): %s", i, text)
			continue
		}
		if c.Choose(4, "request-kind") == 1 {
			// a mutation whose response selects fields that live on other services
			sel := &qsel{name: "touchA", argV: int64(c.Choose(w.nA+1, "arg-i"))}
			sel.arg = fmt.Sprintf("(i: %d)", sel.argV)
			switch c.Choose(3, "mutation-payload") {
			case 0:
				sel.sub = g.genSetPlain("A", 1)
			case 1:
				// a payload type reachable only from Mutation, selected through an
				// inline fragment (as Relay-style clients do)
				sel.name = "touchP"
				sel.sub = &qset{frags: []*qfrag{{on: "P", set: g.genSetPlain("P", 1)}}}
			default:
				sel.name = "touchP"
				f := &qfrag{on: "P", named: "FP", set: g.genSetPlain("P", 1)}
				g.named = append(g.named, f)
				sel.sub = &qset{sels: []*qsel{{name: "n"}}, frags: []*qfrag{f}}
			}
			root := &qset{sels: []*qsel{sel}}
			r = &fedRequest{idx: i, root: root, text: "mutation " + g.text(root, ""), cancelAt: -1, mutation: true}
		} else {
			root := g.genSet("Query", 0)
			g.addTwins(root)
			if c.Choose(3, "directives") == 1 {
				g.dirs = true
				g.decorate(root)
			}
			r = &fedRequest{idx: i, root: root, text: g.text(root, ""), cancelAt: -1}
		}
		if fw.faulty && c.Biased(3, 700, "request-cancel") > 0 {
			r.cancelAt = time.Duration(c.Choose(12, "cancel-at")) * time.Millisecond
		}
		reqs = append(reqs, r)
		c.Describe("request %d cancel@%v: %s", i, r.cancelAt, r.text)
	}
	finished := 0
	// rollout .. settled: the window in which a request may meet a service
	// version whose key set the gateway does not know yet
	var rollout, settled time.Duration
	// Different timers never fire at the same simulated instant by chance, and
	// time stands still while anything is runnable: a redeploy, the refresh
	// that picks it up and a request only meet at fine grain if they are
	// scheduled to. In some runs the redeploy is placed one millisecond before
	// a poller tick and requests start just before that.
	var nearTick time.Duration
	if keyShrink && c.Choose(3, "redeploy-just-before-a-refresh") > 0 {
		nearTick = tickBase + time.Duration(1+c.Choose(2, "which-tick"))*time.Second
	}
	for _, r := range reqs {
		r := r
		start := time.Duration(c.Choose(8, "request-start")) * 300 * time.Millisecond
		if nearTick > 0 && c.Choose(3, "request-just-before-redeploy") > 0 {
			start = nearTick - 2*time.Millisecond - simrt.Now()
		}
		go func() {
			defer func() { finished++ }()
			simrt.Sleep(start)
			vars := dirVars()
			if r.wild {
				vars = r.vars
			}
			q, err := graphql.Parse(r.text, vars)
			if err != nil {
				r.rejected = err
				return
			}
			rctx, cancel := context.WithCancel(context.WithValue(ctx, fedReqKey{}, r))
			defer cancel()
			if r.cancelAt >= 0 {
				go func() {
					simrt.Sleep(r.cancelAt)
					c.Fault("ctx-cancel")
					r.cancelled = true
					r.cancelledAt = simrt.Now() + 1
					cancel()
				}()
			}
			r.startedAt = simrt.Now() + 1
			if rollout > 0 && r.startedAt <= settled {
				// began after the redeploy (the redeploy sets rollout)
				r.lenient = true
			}
			fw.byTask[simrt.CurID()] = r
			r.val, _, r.err = gateway.Execute(rctx, q, nil)
			r.done = true
			r.doneAt = simrt.Now()
			simrt.Logf("request %d done err=%s", r.idx, errLine(r.err))
		}()
	}
	// a rolling deploy: the last service comes back with a new field on A; after
	// the next successful refresh the gateway must plan it, and its own
	// introspection must advertise it
	if !fw.faulty && (keyShrink || c.Choose(3, "redeploy") == 1) {
		if nearTick > 0 {
			simrt.Sleep(nearTick - time.Millisecond - simrt.Now())
		} else {
			simrt.Sleep(time.Duration(c.Choose(2000, "redeploy-at")) * time.Millisecond)
		}
		last := transports[len(transports)-1]
		if c.Choose(2, "refresh-outage") == 1 {
			// the service is unreachable for a while during its restart: the
			// refreshes in that window fail, later ones succeed again
			out := time.Duration(1+c.Choose(3, "refresh-outage-len")) * 1100 * time.Millisecond
			fw.refreshOutageUntil = simrt.Now() + out
			if c.Choose(2, "outage-before-redeploy") == 1 {
				simrt.Sleep(out + 100*time.Millisecond)
			}
		}
		fw.homes["A.extra"] = []string{last.name}
		delete(fw.wideKeys, last.name)
		schema, err := fw.buildService(last.name)
		if err == nil {
			if srv, err := federation.NewServer(schema); err == nil {
				c.Fault("service-redeploy")
				if keyShrink {
					c.Fault("service-redeploy-with-other-key-set")
					rollout = simrt.Now()
					// open until the gateway has really picked the new version up
					// (set below, after three answered schema fetches)
					settled = 1 << 62
					last.oldSrv = last.srv
					// Requests in flight keep talking to the old version. What they
					// must return is only certain if they were planned before this
					// moment (then thunder plans and executes them with the old
					// schema): the gateway was seen planning them, or a sub-query
					// of theirs already reached a service.
					for _, r := range reqs {
						if r.startedAt > 0 && !r.done {
							r.drain = true
							if r.planned || r.hops > 0 {
								c.Probe("request-planned-before-redeploy-still-in-flight")
							} else {
								r.lenient = true
							}
						}
					}
				}
				last.srv = srv
				last.introspected = 0
				if d := fw.refreshOutageUntil - simrt.Now(); d > 0 {
					simrt.Sleep(d)
				}
				// until the new version has answered three of the gateway's schema
				// fetches (a refresh can take long when its task is slow), and the
				// last of them has had time to be installed
				for i := 0; i < 600 && last.introspected < 3; i++ {
					simrt.Sleep(500 * time.Millisecond)
				}
				simrt.Sleep(3500 * time.Millisecond)
				if keyShrink {
					settled = simrt.Now()
				}
				for _, sp := range []struct{ kind, text string }{
					{"data-extra", "{ a_0: a(i: 0) { id extra } }"},
					{"introspect-extra", `{ __type(name: "A") { fields { name } } }`},
				} {
					r := &fedRequest{idx: len(reqs), text: sp.text, special: sp.kind, cancelAt: -1}
					reqs = append(reqs, r)
					go func() {
						defer func() { finished++ }()
						q, err := graphql.Parse(r.text, dirVars())
						if err != nil {
							r.rejected = err
							return
						}
						r.val, _, r.err = gateway.Execute(context.WithValue(ctx, fedReqKey{}, r), q, nil)
						r.done = true
						r.doneAt = simrt.Now()
					}()
				}
			}
		}
	}
	for i := 0; i < 300 && finished < len(reqs); i++ {
		simrt.Sleep(time.Second)
	}
	// a few more refreshes, then stop the gateway
	simrt.Sleep(3 * time.Second)
	cancelGateway()
	simrt.Sleep(5 * time.Minute)
	settleTasks()

	for _, r := range reqs {
		if r.rejected != nil {
			c.Probe("query-rejected")
			continue
		}
		if !r.done {
			key := "gateway-execute-never-returned"
			if r.cancelled {
				key += "/after-cancellation"
			}
			c.ViolateFor("C06,C15", key, "Executor.Execute did not return within 5 simulated minutes (cancelled: %v): %s", r.cancelled, r.text)
			continue
		}
		if r.special != "" {
			fw.checkSpecial(c, r)
			continue
		}
		if r.wild {
			c.Probe("gateway-answered-untrusted-text")
			continue
		}
		ev := &evaluator{w: w}
		rootTyp := "Query"
		if r.mutation {
			rootTyp = "Mutation"
		}
		want := ev.object(rootTyp, 0, r.root, nil)
		delete(want.(map[string]interface{}), "__key")
		wantN, _ := normalize(want)
		// promptness: once a sub-query failed or the request was cancelled, the
		// remaining sub-queries are cancelled and Execute returns (the stub
		// transports honour cancellation at once; resolvers take milliseconds)
		if r.err != nil && r.firstErrorAt > 0 && r.doneAt-r.firstErrorAt > 10*time.Second {
			c.ViolateFor("C15", "gateway-waited-for-sibling-after-failure", "a sub-query of request %d failed at t=%v but Execute only returned at t=%v: the sibling sub-queries were not cancelled", r.idx, r.firstErrorAt, r.doneAt)
		}
		if r.cancelledAt > 0 && r.doneAt > r.cancelledAt && r.doneAt-r.cancelledAt > 10*time.Second {
			c.ViolateFor("C15", "gateway-slow-to-return-after-cancellation", "request %d was cancelled at t=%v but Execute only returned at t=%v", r.idx, r.cancelledAt, r.doneAt)
		}
		if r.err != nil && r.lenient {
			c.Probe("request-failed-during-key-set-rollout")
			continue
		}
		if r.err != nil {
			if !fw.faulty {
				c.ViolateFor("C06", "gateway-error-without-fault", "the gateway failed a valid query although no fault was injected: %v\nquery: %s", firstLine(r.err), r.text)
			} else if !r.cancelled && fw.serviceErrors == 0 {
				c.ViolateFor("C06", "gateway-error-without-fault", "the gateway failed a valid query although no service error or cancellation hit it: %v\nquery: %s", firstLine(r.err), r.text)
			}
			continue
		}
		c.NonTrivial()
		got, err := normalize(r.val)
		if err != nil {
			c.ViolateFor("C06", "result-not-json", "%v", err)
			continue
		}
		if !reflect.DeepEqual(got, wantN) && reflect.DeepEqual(dropUnrequestedTypename(got, wantN), wantN) {
			// the only difference: __typename on union members although the client did not select it
			c.Probe("gateway-added-typename")
			c.ViolateFor("C06", "gateway-adds-typename-to-union-members", "the gateway's answer has a __typename the client did not select on union members\nquery: %s\n got: %s\nwant: %s", r.text, short(got), short(wantN))
			continue
		}
		if !reflect.DeepEqual(got, wantN) {
			c.ViolateFor("C06", "gateway-"+diffKey(got, wantN), "the gateway's answer differs from one combined server [homes %s]\nquery: %s\n got: %s\nwant: %s", strings.Join(homeDesc, " "), r.text, short(got), short(wantN))
			continue
		}
		// the monolith (real thunder, all fields on one server) must agree too
		monoRoot := monolith.Query
		if r.mutation {
			monoRoot = monolith.Mutation
		}
		if q, err := graphql.Parse(r.text, dirVars()); err == nil && graphql.PrepareQuery(context.Background(), monoRoot, q.SelectionSet) == nil {
			val, err := graphql.NewExecutor(graphql.NewImmediateGoroutineScheduler()).Execute(context.Background(), monoRoot, nil, q)
			if err == nil {
				mono, _ := normalize(val)
				if !reflect.DeepEqual(got, mono) {
					c.ViolateFor("C06", "gateway-differs-from-monolith", "query: %s\ngateway: %s\nmonolith: %s", r.text, short(got), short(mono))
				}
			}
		}
	}
	if len(fw.requestErrors) > 0 && !fw.faulty {
		c.ViolateFor("C06", "service-rejected-sub-query", "a service rejected or failed a sub-query the gateway sent it: %s", fw.requestErrors[0])
	}
	for _, t := range simrt.Alive() {
		if strings.HasPrefix(t.Name, "reactive.") || strings.HasPrefix(t.Name, "graphql.") || strings.HasPrefix(t.Name, "federation.") || strings.HasPrefix(t.Name, "errgroup") || strings.Contains(t.Name, "errgroup") {
			c.ViolateFor("C15", "task-left-behind/"+t.Name, "task %s still alive (%s %s) 5 simulated minutes after the gateway was stopped", t.Name, t.State, t.On)
		}
	}
}

func firstLine(err error) string {
	s := err.Error()
	if i := strings.Index(s, "\n"); i >= 0 {
		s = s[:i]
	}
	if len(s) > 400 {
		s = s[:400]
	}
	return s
}

// printSelectionSet renders what a service was asked (event log only).
func printSelectionSet(ss *graphql.SelectionSet) string {
	if ss == nil {
		return ""
	}
	var sb strings.Builder
	sb.WriteString("{ ")
	for _, sel := range ss.Selections {
		if sel.Alias != sel.Name {
			sb.WriteString(sel.Alias + ": ")
		}
		sb.WriteString(sel.Name)
		if sel.UnparsedArgs != nil && len(sel.UnparsedArgs) > 0 {
			sb.WriteString(fmt.Sprintf("(%v)", sel.UnparsedArgs))
		}
		sb.WriteString(" ")
		sb.WriteString(printSelectionSet(sel.SelectionSet))
	}
	for _, f := range ss.Fragments {
		sb.WriteString("... on " + f.On + " " + printSelectionSet(f.SelectionSet))
	}
	sb.WriteString("} ")
	return sb.String()
}

// dropUnrequestedTypename returns got without the __typename entries that
// want does not have at the same position.
func dropUnrequestedTypename(got, want interface{}) interface{} {
	switch g := got.(type) {
	case map[string]interface{}:
		wm, _ := want.(map[string]interface{})
		out := map[string]interface{}{}
		for k, v := range g {
			if k == "__typename" {
				if _, ok := wm[k]; !ok && wm != nil {
					continue
				}
			}
			var wv interface{}
			if wm != nil {
				wv = wm[k]
			}
			out[k] = dropUnrequestedTypename(v, wv)
		}
		return out
	case []interface{}:
		wl, _ := want.([]interface{})
		out := make([]interface{}, len(g))
		for i, v := range g {
			var wv interface{}
			if i < len(wl) {
				wv = wl[i]
			}
			out[i] = dropUnrequestedTypename(v, wv)
		}
		return out
	}
	return got
}

// checkSpecial: requests issued after a service was redeployed with the new
// field A.extra (fault-free runs only, more than three refresh intervals
// later).
func (fw *fedWorld) checkSpecial(c *runner.Ctx, r *fedRequest) {
	if r.err != nil {
		c.ViolateFor("C06", "gateway-ignores-redeployed-schema/"+r.special, "after a service was redeployed with a new field and three refresh intervals passed, %s failed: %v", r.text, firstLine(r.err))
		return
	}
	got, _ := normalize(r.val)
	text := short(got)
	switch r.special {
	case "data-extra":
		if !strings.Contains(text, `"extra":"extra-100"`) {
			c.ViolateFor("C06", "gateway-ignores-redeployed-schema/data", "%s returned %s", r.text, text)
		}
	case "introspect-extra":
		if !strings.Contains(text, `"name":"extra"`) {
			c.ViolateFor("C06", "gateway-introspection-stale-after-refresh", "the gateway serves A.extra but its own introspection does not advertise it: %s returned %s", r.text, text)
		}
	}
}

// selectorSyncer is a SchemaSyncer an application could write: it does what
// federation.IntrospectionSchemaSyncer does, from the exported pieces, and
// gives the planner a ServiceSelector.
type selectorSyncer struct {
	fw    *fedWorld
	execs map[string]federation.ExecutorClient
}

func (s *selectorSyncer) FetchPlannerAndSchema(ctx context.Context) (*federation.Planner, *graphql.Schema, error) {
	schemas := map[string]map[string]*federation.IntrospectionQueryResult{}
	names := make([]string, 0, len(s.execs))
	for name := range s.execs {
		if name != federation.IntrospectionClientName {
			names = append(names, name)
		}
	}
	sort.Strings(names)
	for _, name := range names {
		q, err := graphql.Parse(introspection.IntrospectionQuery, map[string]interface{}{})
		if err != nil {
			return nil, nil, err
		}
		resp, err := s.execs[name].Execute(ctx, &federation.QueryRequest{Query: q})
		if err != nil {
			return nil, nil, err
		}
		var iq federation.IntrospectionQueryResult
		if err := json.Unmarshal(resp.Result, &iq); err != nil {
			return nil, nil, err
		}
		schemas[name] = map[string]*federation.IntrospectionQueryResult{"": &iq}
	}
	types, err := federation.ConvertVersionedSchemas(schemas)
	if err != nil {
		return nil, nil, err
	}
	raw, err := introspection.RunIntrospectionQuery(introspection.BareIntrospectionSchema(introspection.BareIntrospectionSchema(types.Schema)))
	if err != nil {
		return nil, nil, err
	}
	var iq federation.IntrospectionQueryResult
	if err := json.Unmarshal(raw, &iq); err != nil {
		return nil, nil, err
	}
	schemas[federation.IntrospectionClientName] = map[string]*federation.IntrospectionQueryResult{"": &iq}
	if types, err = federation.ConvertVersionedSchemas(schemas); err != nil {
		return nil, nil, err
	}
	planner, err := federation.NewPlanner(types, s.fw.selectService)
	if err != nil {
		return nil, nil, err
	}
	return planner, introspection.BareIntrospectionSchema(types.Schema), nil
}

// selectService is the planner's ServiceSelector: it runs on the task that
// called Execute, while the request is being planned. For a field several
// services can resolve it names one of them (or none: thunder's default).
func (fw *fedWorld) selectService(typeName, fieldName string) string {
	if r := fw.byTask[simrt.CurID()]; r != nil {
		r.planned = true
	}
	// a selector that consults something slow now and then (a flag service):
	// the request stays in its planning phase while refreshes come and go
	if d := fw.w.c.Biased(4, 900, "service-selector-slow"); d > 0 {
		fw.w.c.Fault("service-selector-slow")
		simrt.Sleep([]time.Duration{0, time.Millisecond, 20 * time.Millisecond, 300 * time.Millisecond}[d])
	}
	// a mapping from <type, field> to a service, as documented: the same
	// answer every time it is asked about a field
	key := typeName + "." + fieldName
	if picked, ok := fw.selected[key]; ok {
		return picked
	}
	homes := fw.homes[key]
	picked := ""
	if len(homes) >= 2 {
		if k := fw.w.c.Choose(len(homes)+1, "service-selector"); k > 0 {
			fw.w.c.Probe("service-selector-picked-a-service")
			picked = homes[k-1]
		}
	}
	fw.selected[key] = picked
	return picked
}
