package h1

import (
	"fmt"
	"strings"

	"simrt/runner"
)

// The generator's own query tree. The reference evaluator walks this tree,
// never thunder's parser output.
type qsel struct {
	alias string // "" = no alias
	name  string
	arg   string // printed argument list, "" if none
	argV  int64  // numeric argument (tag.x, a.i)
	argS  *string
	sub   *qset
	dir   string // printed directives, "" if none
	skip  bool   // the directives exclude this selection
}

func (s *qsel) key() string {
	if s.alias != "" {
		return s.alias
	}
	return s.name
}

type qfrag struct {
	on    string
	named string // "" = inline
	set   *qset
	dir   string // printed directives of this spread / inline fragment
	skip  bool   // the directives exclude it
	bare  bool   // inline fragment written without type condition ("... { }"): applies to the enclosing type
}

type qset struct {
	sels  []*qsel
	frags []*qfrag
}

type fdef struct {
	name string
	typ  string // Int, String, A, B, C, U
	list bool
	arg  string // "", "x", "p", "i"
}

var schemaFields = map[string][]fdef{
	"Query":    {{"as", "A", true, ""}, {"a", "A", false, "i"}, {"us", "U", true, ""}, {"u1", "U", false, ""}, {"bs", "B", true, ""}, {"n", "Int", false, ""}, {"ds", "D", true, ""}, {"bs2", "B", true, ""}},
	"Mutation": {{"touchA", "A", false, "i"}, {"touchP", "P", false, "i"}},
	"P":        {{"n", "Int", false, ""}, {"a", "A", false, ""}},
	"D":        {{"id", "Int", false, ""}, {"tags", "String", true, ""}, {"v", "Int", false, ""}},
	"A":        {{"id", "Int", false, ""}, {"name", "String", false, ""}, {"tag", "String", false, "x"}, {"score", "Int", false, ""}, {"b", "B", false, ""}, {"bs", "B", true, ""}, {"u", "U", false, ""}, {"nb", "B", false, ""}, {"grid", "B", true, ""}},
	"B":        {{"id", "Int", false, ""}, {"val", "Int", false, ""}, {"a", "A", false, ""}, {"cs", "C", true, ""}, {"label", "String", false, "p"}},
	"C":        {{"id", "Int", false, ""}, {"w", "Int", false, ""}},
	"F":        {{"id", "Int", false, ""}, {"tags", "String", true, ""}},
}

func fieldDef(typ, name string) fdef {
	for _, f := range schemaFields[typ] {
		if f.name == name {
			return f
		}
	}
	panic("no field " + typ + "." + name)
}

func isObj(t string) bool {
	return t == "A" || t == "B" || t == "C" || t == "U" || t == "D" || t == "F" || t == "P"
}

type gen struct {
	noD   bool // the federated schema has no D type
	nb    bool // select the non-null field A.nb as well
	bs2   bool // select the root field bs2 (served by a non-root service in the federated world)
	inDef int  // > 0 while the body of a named fragment is being generated
	// argVars: some arguments are passed through declared variables (provided,
	// defaulted, or explicitly null); varDecls / varVals collect them
	bareFrags  bool // inline fragments may omit their type condition
	rootTN     bool // __typename may be selected on the query root too
	grid       bool // select the list-of-lists field A.grid
	unionFrags bool // fragments whose type condition is the union type itself
	argVars    bool
	varDecls   []string
	varVals    map[string]interface{}
	dirs       bool // the query declares $t / $f and carries @skip / @include directives
	c          *runner.Ctx
	w          *world
	named      []*qfrag // named fragment definitions
	budget     int
}

// genSet draws a selection set for an object type.
func (g *gen) genSet(typ string, depth int) *qset {
	if typ == "U" {
		return g.genUnionSet(depth)
	}
	set := &qset{}
	n := 1 + g.c.Choose(4, "nsel")
	for i := 0; i < n && g.budget > 0; i++ {
		g.budget--
		switch []int{0, 0, 0, 0, 0, 0, 0, 0, 1, 1, 3, 3, 3, 3, 4}[g.c.Choose(15, "sel-kind")] {
		case 1, 2: // inline fragment on the same type (sometimes without naming it)
			set.frags = append(set.frags, &qfrag{on: typ, bare: g.bareFrags && g.c.Choose(3, "fragment-without-type-condition") == 1, set: g.genSet(typ, depth+1)})
			continue
		case 3: // named fragment (new or reused)
			var reuse []*qfrag
			for _, f := range g.named {
				if f.on == typ {
					reuse = append(reuse, f)
				}
			}
			if len(reuse) > 0 && g.c.Choose(2, "frag-reuse") == 1 {
				f := reuse[g.c.Choose(len(reuse), "frag-which")]
				set.frags = append(set.frags, &qfrag{on: typ, named: f.named, set: f.set})
				g.maybeSibling(set, typ, f.set, depth)
				continue
			}
			if depth < 3 {
				f := &qfrag{on: typ, named: fmt.Sprintf("F%d", len(g.named)+1)}
				g.named = append(g.named, f) // registered first so nested fragments get later numbers
				f.set = g.genSetNoNamed(typ, depth+1)
				set.frags = append(set.frags, &qfrag{on: typ, named: f.named, set: f.set})
				g.maybeSibling(set, typ, f.set, depth)
				continue
			}
		case 4:
			if typ != "Query" || g.rootTN {
				set.sels = append(set.sels, &qsel{name: "__typename", alias: []string{"", "tn"}[g.c.Choose(2, "tn-alias")]})
				continue
			}
		}
		set.sels = append(set.sels, g.genSel(typ, depth))
	}
	if len(set.sels) == 0 && len(set.frags) == 0 {
		set.sels = append(set.sels, g.genSel(typ, 99))
	}
	return set
}

// maybeSibling adds, after a named fragment spread, an inline fragment that
// selects the fragment's object-typed fields again (same alias, same
// arguments) with different sub-selections: the same-alias group then starts
// with the selection that lives inside the shared fragment definition.
func (g *gen) maybeSibling(set *qset, typ string, fset *qset, depth int) {
	if g.c.Choose(2, "frag-sibling") != 1 {
		return
	}
	sib := g.twinSet(typ, fset, depth+1)
	if len(sib.sels) > 0 {
		set.frags = append(set.frags, &qfrag{on: typ, set: sib})
	}
}

// twinSet copies the object-typed selections of a set (same field, alias and
// arguments) giving each a freshly drawn sub-selection.
func (g *gen) twinSet(typ string, src *qset, depth int) *qset {
	var flat []*qsel
	flatten(src, &flat, map[*qset]bool{})
	out := &qset{}
	for _, s := range flat {
		if s.sub == nil || typ == "U" {
			continue
		}
		f := fieldDef(typ, s.name)
		c := *s
		c.sub = g.genSetPlain(f.typ, depth+1)
		out.sels = append(out.sels, &c)
	}
	return out
}

// addTwins duplicates top-level object selections under another alias with
// different sub-sub-selections, so that the same objects are reached through
// two response paths on which equal aliases carry different selections.
func (g *gen) addTwins(root *qset) {
	for _, s := range append([]*qsel{}, root.sels...) {
		if s.sub == nil || g.c.Choose(3, "twin") != 1 {
			continue
		}
		f := fieldDef("Query", s.name)
		if f.typ == "U" {
			continue
		}
		c := *s
		c.alias = "tw_" + s.key()
		c.sub = g.twinSet(f.typ, s.sub, 1)
		if len(c.sub.sels) == 0 {
			continue
		}
		root.sels = append(root.sels, &c)
	}
}

// genSetNoNamed: inside a named fragment definition no further named
// fragments are created or spread (keeps the definitions acyclic).
func (g *gen) genSetNoNamed(typ string, depth int) *qset {
	saved := g.named
	g.inDef++
	set := g.genSetPlain(typ, depth)
	g.inDef--
	g.named = saved
	return set
}

func (g *gen) genSetPlain(typ string, depth int) *qset {
	if typ == "U" {
		return g.genUnionSet(depth)
	}
	set := &qset{}
	n := 1 + g.c.Choose(5, "nsel")
	for i := 0; i < n; i++ {
		s := g.genSelWith(typ, depth, true)
		set.sels = append(set.sels, s)
	}
	return set
}

func (g *gen) genSel(typ string, depth int) *qsel { return g.genSelWith(typ, depth, false) }

func (g *gen) genSelWith(typ string, depth int, plain bool) *qsel {
	fields := schemaFields[typ]
	var f fdef
	for tries := 0; ; tries++ {
		f = fields[g.c.Choose(len(fields), "field")]
		if g.noD && f.typ == "D" {
			f = fields[0]
		}
		if !g.nb && f.name == "nb" {
			f = fields[0]
		}
		if !g.bs2 && f.name == "bs2" {
			f = fields[0]
		}
		if !g.grid && f.name == "grid" {
			f = fields[0]
		}
		if !isObj(f.typ) || depth < 4 || tries > 8 {
			break
		}
	}
	if isObj(f.typ) && depth >= 4 {
		// too deep: fall back to a scalar of this type
		f = fields[0]
	}
	s := &qsel{name: f.name}
	aliasSuffix := ""
	switch f.arg {
	case "x":
		s.argV = int64(g.c.Choose(3, "arg-x"))
		s.arg = fmt.Sprintf("(x: %d)", s.argV)
		aliasSuffix = fmt.Sprintf("%d", s.argV)
	case "i":
		s.argV = int64(g.c.Choose(g.w.nA+1, "arg-i"))
		s.arg = fmt.Sprintf("(i: %d)", s.argV)
		aliasSuffix = fmt.Sprintf("%d", s.argV)
	case "p":
		if g.c.Choose(2, "arg-p") == 1 {
			v := []string{"q", "r"}[g.c.Choose(2, "arg-p-val")]
			s.argS = &v
			s.arg = fmt.Sprintf("(p: %q)", v)
			aliasSuffix = v
		}
	}
	if g.argVars && f.arg != "" && g.c.Choose(3, "arg-by-variable") == 1 {
		g.byVariable(s, f.arg, &aliasSuffix)
	}
	// an alias is a function of (field, args), so equal aliases never conflict
	switch {
	case aliasSuffix != "":
		s.alias = f.name + "_" + aliasSuffix
		if g.c.Choose(3, "alias2") == 1 {
			s.alias = "z" + s.alias
		}
	case g.c.Choose(4, "alias") == 1:
		s.alias = "al_" + f.name
	}
	if isObj(f.typ) {
		if plain {
			s.sub = g.genSetPlain(f.typ, depth+1)
		} else {
			s.sub = g.genSet(f.typ, depth+1)
		}
	}
	return s
}

func (g *gen) genUnionSet(depth int) *qset {
	if g.unionFrags && depth < 4 && g.c.Choose(4, "fragment-on-union-type") == 1 {
		// the member fragments arrive inside a fragment on the union type itself
		// (what Relay-style clients generate)
		g.c.Probe("fragment-on-union-type")
		inner := g.genUnionSetInner(depth + 1)
		outer := &qset{}
		if g.c.Choose(2, "union-fragment-plus-direct") == 1 {
			outer = g.genUnionSetInner(depth + 1)
		}
		// ("... on U { }", or without naming the type: "... { }")
		outer.frags = append(outer.frags, &qfrag{on: "U", bare: g.bareFrags && g.c.Choose(2, "fragment-without-type-condition") == 1, set: inner})
		return outer
	}
	return g.genUnionSetInner(depth)
}

func (g *gen) genUnionSetInner(depth int) *qset {
	set := &qset{}
	if g.c.Choose(3, "union-typename") == 1 {
		set.sels = append(set.sels, &qsel{name: "__typename"})
	}
	for _, m := range []string{"A", "B", "C", "F"} {
		k := g.c.Choose(8, "union-member")
		if k == 0 && len(set.frags) > 0 {
			continue // member without fragment
		}
		// the member's selections: plain, or with inline and named fragments
		// of their own nested inside the member fragment
		member := func() *qset {
			if g.inDef == 0 && g.budget > 0 && g.c.Choose(3, "union-member-nested-fragments") == 1 {
				return g.genSet(m, depth+1)
			}
			return g.genSetPlain(m, depth+1)
		}
		set.frags = append(set.frags, &qfrag{on: m, set: member()})
		if k == 1 {
			set.frags = append(set.frags, &qfrag{on: m, set: member()})
		}
	}
	return set
}

// ---- printing ----

func (s *qset) print(sb *strings.Builder) {
	sb.WriteString("{ ")
	for _, sel := range s.sels {
		if sel.alias != "" {
			sb.WriteString(sel.alias + ": ")
		}
		sb.WriteString(sel.name + sel.arg + " " + sel.dir)
		if sel.sub != nil {
			sel.sub.print(sb)
		}
	}
	for _, f := range s.frags {
		if f.named != "" {
			sb.WriteString("..." + f.named + " " + f.dir)
		} else if f.bare {
			sb.WriteString("... " + f.dir)
			f.set.print(sb)
		} else {
			sb.WriteString("... on " + f.on + " " + f.dir)
			f.set.print(sb)
		}
	}
	sb.WriteString("} ")
}

func (g *gen) text(root *qset, opName string) string {
	var sb strings.Builder
	var decls []string
	if g.dirs {
		decls = append(decls, "$t: Boolean", "$f: Boolean")
	}
	decls = append(decls, g.varDecls...)
	switch {
	case len(decls) > 0:
		sb.WriteString("query " + opName + "(" + strings.Join(decls, ", ") + ") ")
	case opName != "":
		sb.WriteString("query " + opName + " ")
	}
	root.print(&sb)
	used := map[string]bool{}
	var mark func(s *qset)
	mark = func(s *qset) {
		for _, sel := range s.sels {
			if sel.sub != nil {
				mark(sel.sub)
			}
		}
		for _, f := range s.frags {
			if f.named != "" && !used[f.named] {
				used[f.named] = true
			}
			mark(f.set)
		}
	}
	mark(root)
	for _, f := range g.named {
		if used[f.named] {
			sb.WriteString("\nfragment " + f.named + " on " + f.on + " ")
			f.set.print(&sb)
		}
	}
	return sb.String()
}

// ---- reference evaluation ----

type failRec struct {
	path  []string // response path (aliases and list indices)
	field string   // logical field, e.g. "A.tag"
	id    int64
	f     failure
}

type evaluator struct {
	w       *world
	fails   []failRec
	touched map[string]bool // datum keys whose resolver the evaluation needs (when non-nil)
}

// flatten collects the selections of a set in order, descending into
// fragments (for objects every fragment applies: the generator only emits
// fragments on the object's own type).
func flatten(set *qset, out *[]*qsel, seen map[*qset]bool) {
	if set == nil || seen[set] {
		return
	}
	seen[set] = true
	for _, s := range set.sels {
		if !s.skip {
			*out = append(*out, s)
		}
	}
	for _, f := range set.frags {
		if !f.skip {
			flatten(f.set, out, seen)
		}
	}
}

// byVariable rewrites the argument of s so that it arrives through a declared
// variable: provided, provided over a default, defaulted, and for the nullable
// string argument also explicitly null (which beats a default) or absent.
func (g *gen) byVariable(s *qsel, arg string, aliasSuffix *string) {
	name := fmt.Sprintf("v%d", len(g.varDecls))
	if g.varVals == nil {
		g.varVals = map[string]interface{}{}
	}
	g.c.Probe("argument-by-variable")
	if arg == "p" {
		lit := func(v string) string { return fmt.Sprintf("%q", v) }
		cur := ""
		if s.argS != nil {
			cur = *s.argS
		}
		switch g.c.Choose(5, "variable-form") {
		case 0: // provided (or provided null)
			g.varDecls = append(g.varDecls, "$"+name+": string")
			if s.argS != nil {
				g.varVals[name] = cur
			} else {
				g.varVals[name] = nil
			}
		case 1: // defaulted
			if s.argS == nil {
				g.varDecls = append(g.varDecls, "$"+name+": string")
			} else {
				g.varDecls = append(g.varDecls, "$"+name+": string = "+lit(cur))
			}
		case 2: // provided over a default
			g.varDecls = append(g.varDecls, "$"+name+": string = "+lit("r"))
			if s.argS == nil {
				v := "q"
				s.argS = &v
				cur = v
			}
			g.varVals[name] = cur
		case 3: // an explicit null beats the default
			g.varDecls = append(g.varDecls, "$"+name+": string = "+lit("q"))
			g.varVals[name] = nil
			s.argS = nil
		default: // absent, no default: null
			g.varDecls = append(g.varDecls, "$"+name+": string")
			s.argS = nil
		}
		s.arg = "(p: $" + name + ")"
		*aliasSuffix = "nil"
		if s.argS != nil {
			*aliasSuffix = *s.argS
		}
		return
	}
	switch g.c.Choose(3, "variable-form") {
	case 0:
		g.varDecls = append(g.varDecls, "$"+name+": int64")
		g.varVals[name] = float64(s.argV) // as encoding/json decodes it
	case 1:
		g.varDecls = append(g.varDecls, fmt.Sprintf("$%s: int64 = %d", name, s.argV))
	default:
		g.varDecls = append(g.varDecls, fmt.Sprintf("$%s: int64 = %d", name, s.argV+1))
		g.varVals[name] = float64(s.argV)
	}
	s.arg = fmt.Sprintf("(%s: $%s)", arg, name)
}

// dirVars are the variables the generated directives refer to.
func dirVars() map[string]interface{} { return map[string]interface{}{"t": true, "f": false} }

// vars: the variables of a generated query (directive flags plus argument variables).
func (g *gen) vars() map[string]interface{} {
	out := dirVars()
	for k, v := range g.varVals {
		out[k] = v
	}
	return out
}

// decorate attaches @skip / @include directives to some selections, inline
// fragments and fragment spreads of a generated query (every node once; the
// body of a named fragment is shared by its spreads, each spread has its own
// directives).
func (g *gen) decorate(root *qset) {
	forms := []struct {
		text string
		skip bool
	}{
		{"@skip(if: true) ", true}, {"@skip(if: false) ", false}, {"@include(if: true) ", false}, {"@include(if: false) ", true},
		{"@skip(if: $t) ", true}, {"@skip(if: $f) ", false}, {"@include(if: $t) ", false}, {"@include(if: $f) ", true},
		// both directives: the selection stays only if neither excludes it
		{"@skip(if: false) @include(if: $f) ", true}, {"@include(if: true) @skip(if: $t) ", true}, {"@include(if: $t) @skip(if: false) ", false},
	}
	draw := func() (string, bool) {
		if g.c.Choose(6, "directive") != 1 {
			return "", false
		}
		g.c.Probe("directive-generated")
		f := forms[g.c.Choose(len(forms), "directive-form")]
		return f.text, f.skip
	}
	seen := map[*qset]bool{}
	var walk func(s *qset)
	walk = func(s *qset) {
		if s == nil || seen[s] {
			return
		}
		seen[s] = true
		for _, sel := range s.sels {
			sel.dir, sel.skip = draw()
			walk(sel.sub)
		}
		for _, f := range s.frags {
			f.dir, f.skip = draw()
			walk(f.set)
		}
	}
	walk(root)
}

func path(p []string, s ...string) []string {
	return append(append([]string{}, p...), s...)
}

// object evaluates a selection set on one object (typ in A, B, C, Query).
func (e *evaluator) object(typ string, id int64, set *qset, p []string) interface{} {
	var sels []*qsel
	flatten(set, &sels, map[*qset]bool{})
	return e.objectSels(typ, id, sels, p)
}

func (e *evaluator) objectSels(typ string, id int64, sels []*qsel, p []string) interface{} {
	out := map[string]interface{}{}
	var order []string
	groups := map[string][]*qsel{}
	for _, s := range sels {
		k := s.key()
		if _, ok := groups[k]; !ok {
			order = append(order, k)
		}
		groups[k] = append(groups[k], s)
	}
	for _, k := range order {
		g := groups[k]
		first := g[0]
		if first.name == "__typename" {
			out[k] = typ
			continue
		}
		// merge the sub-selections of every selection with this alias
		var merged []*qsel
		seen := map[*qset]bool{}
		var mergedUnion []*qset
		for _, s := range g {
			if s.sub != nil {
				flatten(s.sub, &merged, seen)
				mergedUnion = append(mergedUnion, s.sub)
			}
		}
		out[k] = e.field(typ, id, first, merged, mergedUnion, path(p, k))
	}
	if typ != "Query" && typ != "Mutation" && typ != "P" {
		out["__key"] = id
	}
	return out
}

// field resolves one (object, field) instance.
func (e *evaluator) field(typ string, id int64, s *qsel, merged []*qsel, unionSets []*qset, p []string) interface{} {
	w := e.w
	logical := typ + "." + s.name
	failID := id
	if typ == "Query" || typ == "Mutation" {
		failID = 0
		if s.name == "a" || s.name == "touchA" || s.name == "touchP" {
			failID = s.argV
		}
	}
	if e.touched != nil && s.name != "id" && s.name != "name" && s.name != "val" && s.name != "tags" && logical != "Query.n" {
		e.touched[fmt.Sprintf("%s/%d", logical, failID)] = true
	}
	if f, ok := w.fail[fmt.Sprintf("%s/%d", logical, failID)]; ok {
		e.fails = append(e.fails, failRec{path: p, field: logical, id: failID, f: f})
		return nil
	}
	objOf := func(t string, idx int) interface{} {
		if idx < 0 {
			return nil
		}
		var oid int64
		switch t {
		case "A":
			oid = w.as[idx].ID
		case "B":
			oid = w.bs[idx].ID
		case "C":
			oid = w.cs[idx].ID
		case "F":
			oid = w.fs[idx].ID
		}
		return func(pp []string) interface{} { return e.objectSels(t, oid, merged, pp) }
	}
	list := func(t string, l []int) interface{} {
		out := []interface{}{}
		for i, idx := range l {
			o := objOf(t, idx)
			if o == nil {
				out = append(out, nil)
				continue
			}
			out = append(out, o.(func([]string) interface{})(path(p, fmt.Sprint(i))))
		}
		return out
	}
	one := func(t string, idx int) interface{} {
		o := objOf(t, idx)
		if o == nil {
			return nil
		}
		return o.(func([]string) interface{})(p)
	}
	switch logical {
	case "Query.n":
		return int64(42)
	case "Query.as":
		return list("A", w.rootAs)
	case "Query.a", "Mutation.touchA":
		if s.argV < 0 || int(s.argV) >= w.nA {
			return nil
		}
		return one("A", int(s.argV))
	case "Mutation.touchP":
		return e.objectSels("P", s.argV, merged, p)
	case "P.n":
		return 7000 + id
	case "P.a":
		if id < 0 || int(id) >= w.nA {
			return nil
		}
		return one("A", int(id))
	case "Query.bs", "Query.bs2":
		return list("B", w.rootBs)
	case "Query.ds":
		out := []interface{}{}
		for i, idx := range w.rootDs {
			out = append(out, e.objectSels("D", w.ds[idx].ID, merged, path(p, fmt.Sprint(i))))
		}
		return out
	case "D.id", "F.id":
		return id
	case "F.tags":
		out := []interface{}{}
		for _, t := range w.fs[id-100].Tags {
			out = append(out, t)
		}
		return out
	case "D.tags":
		out := []interface{}{}
		for _, t := range w.ds[id-400].Tags {
			out = append(out, t)
		}
		return out
	case "D.v":
		return w.vVal(id)
	case "Query.us":
		out := []interface{}{}
		for i, r := range w.rootUs {
			out = append(out, e.union(r, unionSets, path(p, fmt.Sprint(i))))
		}
		return out
	case "Query.u1":
		return e.union(w.rootU1, unionSets, p)
	case "A.id", "B.id", "C.id":
		return id
	case "A.name":
		return w.as[id-100].Name
	case "A.tag":
		return w.tagVal(id, s.argV)
	case "A.score":
		return w.scoreVal(id)
	case "A.b":
		return one("B", w.aB[id-100])
	case "A.nb":
		if w.aB[id-100] < 0 {
			e.fails = append(e.fails, failRec{path: p, field: logical, id: failID, f: failure{kind: 5}})
			return nil
		}
		return one("B", w.aB[id-100])
	case "A.bs":
		return list("B", w.aBs[id-100])
	case "A.grid":
		// rows: the bs list, a nil row, the bs list again in reverse, an empty row
		l := w.aBs[id-100]
		rev := make([]int, len(l))
		for i, x := range l {
			rev[len(l)-1-i] = x
		}
		out := []interface{}{}
		for r, row := range [][]int{l, nil, rev, {}} {
			cells := []interface{}{}
			for i, idx := range row {
				o := objOf("B", idx)
				if o == nil {
					cells = append(cells, nil)
					continue
				}
				cells = append(cells, o.(func([]string) interface{})(path(p, fmt.Sprint(r), fmt.Sprint(i))))
			}
			out = append(out, cells)
		}
		return out
	case "A.u":
		if w.badU[id] && w.aU[id-100].typ != "" {
			e.fails = append(e.fails, failRec{path: p, field: logical, id: failID, f: failure{kind: 6}})
			return nil
		}
		return e.union(w.aU[id-100], unionSets, p)
	case "B.val":
		return w.bs[id-200].Val
	case "B.a":
		return one("A", w.bA[id-200])
	case "B.cs":
		return list("C", w.bCs[id-200])
	case "B.label":
		return w.labelVal(id, s.argS)
	case "C.w":
		return w.wVal(id)
	}
	panic("reference: unknown field " + logical)
}

// union dispatches by the concrete member: every fragment on that member
// applies, a __typename selected on the union itself applies to every member.
func (e *evaluator) union(r ref, sets []*qset, p []string) interface{} {
	if r.typ == "" {
		return nil
	}
	// a fragment on the union type itself contributes its own member fragments
	// and union-level selections
	sets = append([]*qset{}, sets...)
	for i := 0; i < len(sets); i++ {
		for _, f := range sets[i].frags {
			if f.on == "U" && !f.skip {
				sets = append(sets, f.set)
			}
		}
	}
	var sels []*qsel
	applicable := false
	seen := map[*qset]bool{}
	for _, set := range sets {
		for _, f := range set.frags {
			if f.on == r.typ && !f.skip {
				applicable = true
				flatten(f.set, &sels, seen)
			}
		}
	}
	for _, set := range sets {
		for _, s := range set.sels {
			if s.name == "__typename" && !s.skip {
				sels = append(sels, s)
			}
		}
	}
	_ = applicable
	var oid int64
	switch r.typ {
	case "A":
		oid = e.w.as[r.id].ID
	case "B":
		oid = e.w.bs[r.id].ID
	case "C":
		oid = e.w.cs[r.id].ID
	case "F":
		oid = e.w.fs[r.id].ID
	}
	return e.objectSels(r.typ, oid, sels, p)
}

// doomedQuery draws a request that is well-formed GraphQL but cannot be
// executed: a @skip / @include whose "if" argument is missing, null, unset or
// not a boolean. The only acceptable outcome is an error answer.
func doomedQuery(c *runner.Ctx) (string, map[string]interface{}) {
	texts := []string{
		`query Q($v: Boolean) { n @skip(if: $v) }`,
		`query Q($v: Boolean) { n ... on Query @include(if: $v) { al_n: n } }`,
		`query Q($v: Boolean) { a(i: 0) { id @skip(if: $v) } }`,
		`query Q($v: Boolean) { a(i: 0) { id ... on A @include(if: $v) { name } } }`,
		"query Q($v: Boolean) { n ...FD @skip(if: $v) }\nfragment FD on Query { al_n: n }",
		`{ n @skip(if: "yes") }`,
		`{ n @skip }`,
		`{ n @include(if: 1) }`,
		`{ a(i: 0) { id @include(if: [true]) } }`,
		`{ n @skip(if: {a: true}) }`,
	}
	k := c.Choose(len(texts), "doomed-query")
	vars := map[string]interface{}{}
	switch c.Choose(4, "doomed-vars") {
	case 1:
		vars["v"] = nil
	case 2:
		vars["v"] = "true"
	case 3:
		vars["v"] = map[string]interface{}{"if": true}
	}
	return texts[k], vars
}

// wildJSON draws an arbitrary JSON value (depth-limited).
func wildJSON(c *runner.Ctx, depth int) interface{} {
	n := 12
	if depth >= 3 {
		n = 8
	}
	switch c.Choose(n, "wild-json") {
	case 0:
		return nil
	case 1:
		return true
	case 2:
		return float64(c.Choose(3, "wild-int") - 1)
	case 3:
		return 1.5
	case 4:
		return 1e30
	case 5:
		return []string{"", "ONE", "x", "1"}[c.Choose(4, "wild-string")]
	case 6:
		return -9.3e18
	case 7:
		return []interface{}{}
	case 8:
		var l []interface{}
		for i, k := 0, 1+c.Choose(2, "wild-list-len"); i < k; i++ {
			l = append(l, wildJSON(c, depth+1))
		}
		return l
	default:
		m := map[string]interface{}{}
		keys := []string{"a", "b", "l", "m", "e", "x", "y", "zz"}
		for i, k := 0, c.Choose(4, "wild-obj-len"); i < k; i++ {
			m[keys[c.Choose(len(keys), "wild-key")]] = wildJSON(c, depth+1)
		}
		return m
	}
}

// wildQuery draws a request whose arguments and variables are arbitrary: the
// server may answer with data or with an error, it must not crash or hang.
func wildQuery(c *runner.Ctx, w *world) (string, map[string]interface{}) {
	texts := []string{
		`query Q($v: probeIn_InputObject) { probe(o: $v, s: [1, 2], f: 1.5, b: true, u: 1, i32: 1, str: "x") }`,
		`query Q($v: [int64!]) { probe(s: $v, f: 1, b: false, u: 0, i32: 0, str: "") }`,
		`query Q($v: float64) { probe(s: [], f: $v, b: false, u: $v, i32: $v, str: "", p: $v) }`,
		`query Q($v: string) { probe(s: [], f: 0, b: $v, u: 0, i32: 0, str: $v) }`,
		`{ probe(o: {a: 1, l: [{x: true}], e: ONE}, s: [1], f: 1, b: true, u: 1, i32: 1, str: "s") }`,
		`{ probe(o: {a: "1", l: {x: true}, e: THREE, zz: 1}, s: 1, f: "f", b: 1, u: -1, i32: 99999999999, str: 5) }`,
		`{ probe(o: {a: 99999999999999999999999, m: {x: 1, y: "y"}}, s: [1.5, "2", null], f: 1e999, b: true, u: 256, i32: 1.5, str: "s") }`,
		`{ probe }`,
		`{ probe(o: null, s: null, f: null, b: null, u: null, i32: null, str: null, p: null) }`,
		`query Q($v: int64) { a(i: $v) { id tag(x: $v) b { label(p: $v) } } }`,
		`{ a(i: 1.5) { id } al: a(i: "0") { id } a2: a(i: [0]) { id } }`,
		`{ a(i: 0) { tag(x: 99999999999999999999) } }`,
		`{ a(i: 0, i: 1) { id } }`,
		`{ a(j: 0) { id } }`,
		`{ a { id } }`,
		`query Q($v: int64 = 0) { a(i: $v) { id } }`,
		`query Q($v: int64! = 0) { a(i: $v) { id } }`,
		`query Q($v: [[int64]]) { n @skip(if: $v) }`,
		// well-formed GraphQL that thunder may or may not support
		`{ as { ... { id } } us { ... { __typename } } ... { n } }`,
		`{ us { ... { bogus } } u1 { ... { id } } }`,
		`{ u1 { ... on U { bogus } } us { ... on U { ... { name } } } }`,
		`query A { n } query B { n }`,
		`subscription { n }`,
		`{ as @nope(x: 1) { id @deprecated } }`,
		`{ as { ...F } } fragment F on Nope { id }`,
		`{ as { ... on Nope { id } } }`,
		`{ n } # trailing comment`,
		`{ n } fragment Unused on Query { n }`,
		`{ ...F } fragment F on Query { ...G } fragment G on Query { ...F }`,
		`{ ...Undefined }`,
		`{ ...F } fragment F on Query { n } fragment F on Query { n }`,
		`{ a(i: 0) { tag(x: -0) b { label(p: """block "string" \u00e9""") } } }`,
		`{ a(i: 1e400) { id } }`,
		`{ a(i: 0) { b { a { b { a { b { a { b { a { b { a { b { a { b { a { b { id } } } } } } } } } } } } } } } } }`,
		`{ aaaaaaaaaaaaaaaaaaaaaaaaaaaaaaaaaaaaaaaaaaaaaaaaaaaaaaaaaaaaaaaaaaaaaaaaaaaaaaaaaaaaaaaaaaaaaaaaaaaaaaaaaaaaaaaaaaaaaaaaaaaaaaaaaaaaaaaaaaaaaaaaaaaaaaaa: n }`,
		`{ __schema { types { name } } __type(name: "A") { name fields { name type { name kind } } } }`,
		`mutation { n }`,
		`{ us { id } }`,
		`{ n { x } }`,
		`{ as }`,
		// one alias for selections that cannot be merged
		`{ as { x: b { id } x: id } }`,
		`{ as { x: id x: b { id } } }`,
		`{ x: as { id } x: n }`,
		`{ us { ... on A { x: id } ... on A { x: b { id } } } }`,
		`{ as { x: id x: name } bs { a { id: name } } }`,
		`{ as { b { x: a { id } ...F } } } fragment F on B { x: id }`,
	}
	k := c.Choose(len(texts), "wild-query")
	vars := map[string]interface{}{}
	if c.Choose(2, "wild-by-mutation") == 1 {
		// a generated, valid query damaged at the token level
		g := &gen{c: c, w: w, budget: 6, rootTN: true, bareFrags: true, unionFrags: true}
		root := g.genSet("Query", 0)
		g.dirs = true
		g.decorate(root)
		c.Probe("mutated-query-text")
		return mutateText(c, g.text(root, "")), dirVars()
	}
	if c.Choose(5, "wild-no-var") != 0 {
		vars["v"] = wildJSON(c, 0)
	}
	return texts[k], vars
}

// mutateText damages a well-formed query at the token level (drop, repeat,
// swap, insert from a small dictionary): whatever comes out, the server owes
// an answer - data or an error - and nothing else.
func mutateText(c *runner.Ctx, text string) string {
	var toks []string
	cur := ""
	flush := func() {
		if cur != "" {
			toks = append(toks, cur)
			cur = ""
		}
	}
	for _, r := range text {
		switch {
		case r == ' ' || r == '\n' || r == '\t':
			flush()
		case strings.ContainsRune("{}():$@!=[],", r):
			flush()
			toks = append(toks, string(r))
		default:
			cur += string(r)
		}
	}
	flush()
	dict := []string{"{", "}", "(", ")", "...", "on", "fragment", "query", "mutation", "subscription", "@skip", "@include", "(if: $t)", "(if: true)",
		":", "$v", "$", "!", "[", "]", "\"", "\"\"\"", "\\u12", "1e999", "-", "0x10", "null", "true", "__typename", "__schema", "A", "U", "Query", "id", "as", "us", "a(i: 0)", "#", ",", "=", "&", "|"}
	n := 1 + c.Choose(3, "mutations")
	for k := 0; k < n && len(toks) > 0; k++ {
		i := c.Choose(len(toks), "mutation-at")
		switch c.Choose(5, "mutation-kind") {
		case 4: // the same alias in front of two tokens (two selections that clash if they are siblings)
			j := c.Choose(len(toks), "mutation-at-2")
			if j < i {
				i, j = j, i
			}
			toks = append(toks[:j], append([]string{"zz", ":"}, toks[j:]...)...)
			toks = append(toks[:i], append([]string{"zz", ":"}, toks[i:]...)...)
		case 0: // drop
			toks = append(toks[:i], toks[i+1:]...)
		case 1: // repeat
			toks = append(toks[:i+1], toks[i:]...)
		case 2: // swap with the next
			if i+1 < len(toks) {
				toks[i], toks[i+1] = toks[i+1], toks[i]
			}
		default: // insert
			t := dict[c.Choose(len(dict), "mutation-token")]
			toks = append(toks[:i], append([]string{t}, toks[i:]...)...)
		}
	}
	return strings.Join(toks, " ")
}
