package h1

import (
	"context"
	"encoding/json"
	"time"

	"github.com/samsarahq/thunder/graphql"
	"simrt"
	"simrt/runner"
)

func init() {
	runner.Register("C15", runner.Scenario{Name: "untrusted-text", Options: func(string) simrt.Options {
		return simrt.Options{MaxSteps: 200000, RotateMaps: true}
	}, Body: untrustedBody})
}

// untrustedBody feeds many query texts and variable maps that no well-behaved
// client would send - a fixed list of unusual but well-formed GraphQL, bad
// directive arguments, arbitrary JSON as arguments and variables, and valid
// generated queries damaged at the token level - through Parse, PrepareQuery
// and Execute, several at a time. The oracle is the one the property states:
// an answer (data or an error, never both), no panic on any task, nothing
// left running, bounded CPU time.
func untrustedBody(c *runner.Ctx) {
	w := newWorld(c)
	c.Class = "untrusted-text"
	for _, f := range computedFields {
		w.modes[f] = fieldMode{mode: c.Choose(5, "mode")}
	}
	schema, err := w.buildSchemaWithMutation()
	if err != nil {
		c.Violate("schema-build-failed", "%v", err)
		return
	}
	n := 10 + c.Choose(30, "texts")
	c.WallGuard = 10 * time.Second
	c.WallNote = "a batch of untrusted query texts"
	finished := 0
	for i := 0; i < n; i++ {
		var text string
		var vars map[string]interface{}
		if c.Choose(4, "doomed-or-wild") == 0 {
			text, vars = doomedQuery(c)
		} else {
			text, vars = wildQuery(c, w)
		}
		// variables arrive as decoded JSON
		if b, err := json.Marshal(vars); err == nil {
			vars = map[string]interface{}{}
			json.Unmarshal(b, &vars)
		}
		c.Fault("untrusted-query-text")
		go func() {
			defer func() { finished++ }()
			q, err := graphql.Parse(text, vars)
			if err != nil {
				return
			}
			root := schema.Query
			if q.Kind == "mutation" {
				root = schema.Mutation
			}
			if err := graphql.PrepareQuery(context.Background(), root, q.SelectionSet); err != nil {
				return
			}
			c.NonTrivial()
			c.Probe("untrusted-text-reached-execution")
			val, err := graphql.NewExecutor(graphql.NewImmediateGoroutineScheduler()).Execute(context.Background(), root, nil, q)
			if err != nil && val != nil {
				c.Violate("data-and-error", "Execute returned both data and an error for %q", text)
			}
			if err == nil {
				if _, jerr := json.Marshal(val); jerr != nil {
					c.Violate("result-not-json", "the result of %q cannot be serialised: %v", text, jerr)
				}
			}
		}()
		if c.Choose(3, "text-gap") == 0 {
			simrt.Sleep(time.Millisecond)
		}
	}
	for i := 0; i < 600 && finished < n; i++ {
		simrt.Sleep(time.Second)
	}
	if finished < n {
		c.Violate("execute-never-returned", "%d of %d untrusted requests did not return within ten simulated minutes", n-finished, n)
	}
}
