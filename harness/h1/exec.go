package h1

import (
	"context"
	"encoding/json"
	"errors"
	"fmt"
	"reflect"
	"strings"
	"sync"
	"time"

	"github.com/samsarahq/thunder/graphql"
	"github.com/samsarahq/thunder/reactive"
	"simrt"
	"simrt/runner"
)

func init() {
	opts := func(string) simrt.Options { return simrt.Options{MaxSteps: 100000, RotateMaps: true} }
	runner.Register("C01", runner.Scenario{Name: "executor", Options: opts, Body: func(c *runner.Ctx) { body(c, false) }})
	runner.Register("C16", runner.Scenario{Name: "executor-faults", Options: opts, Body: func(c *runner.Ctx) { body(c, true) }})
	park := func(string) simrt.Options {
		return simrt.Options{MaxSteps: 100000, RotateMaps: true, ParkPermille: 10, MapPausePermille: 200, SpawnPausePermille: 30}
	}
	runner.Register("C01", runner.Scenario{Name: "executor-preempt", Options: park, Body: func(c *runner.Ctx) { body(c, false) }})
	runner.Register("C16", runner.Scenario{Name: "executor-faults-preempt", Options: park, Body: func(c *runner.Ctx) { body(c, true) }})
}

// ---- harness implementations of the public WorkScheduler seam ----

type serialScheduler struct {
	c    *runner.Ctx
	mode int // 0 FIFO, 1 LIFO, 2 seeded order
}

func (s *serialScheduler) Run(resolver graphql.UnitResolver, units ...*graphql.WorkUnit) {
	queue := append([]*graphql.WorkUnit{}, units...)
	for len(queue) > 0 {
		i := 0
		switch s.mode {
		case 1:
			i = len(queue) - 1
		case 2:
			i = s.c.Choose(len(queue), "sched-pick")
		}
		u := queue[i]
		queue = append(queue[:i], queue[i+1:]...)
		queue = append(queue, resolver(u)...)
	}
}

// waveScheduler runs up to k units concurrently, then the next wave.
type waveScheduler struct{ k int }

func (s *waveScheduler) Run(resolver graphql.UnitResolver, units ...*graphql.WorkUnit) {
	queue := append([]*graphql.WorkUnit{}, units...)
	for len(queue) > 0 {
		n := s.k
		if n > len(queue) {
			n = len(queue)
		}
		wave := queue[:n]
		queue = append([]*graphql.WorkUnit{}, queue[n:]...)
		var mu sync.Mutex
		var wg sync.WaitGroup
		for _, u := range wave {
			u := u
			wg.Add(1)
			go func() {
				defer wg.Done()
				children := resolver(u)
				mu.Lock()
				queue = append(queue, children...)
				mu.Unlock()
			}()
		}
		wg.Wait()
	}
}

type execution struct {
	idx      int
	text     string
	opName   string
	vars     map[string]interface{}
	root     *qset
	sched    string
	fallback bool
	rerunner bool          // execute inside a one-shot reactive.Rerunner, as the HTTP handler does (Expensive fields then go through reactive.Cache)
	deadline time.Duration // > 0: the computation's context gets this deadline (as a makeCtx would set one)
	done     bool
	val      interface{}
	err      error
	rejected error
}

func normalize(v interface{}) (interface{}, error) {
	b, err := json.Marshal(v)
	if err != nil {
		return nil, err
	}
	var out interface{}
	if err := json.Unmarshal(b, &out); err != nil {
		return nil, err
	}
	return out, nil
}

func short(v interface{}) string {
	b, _ := json.Marshal(v)
	if len(b) > 700 {
		return string(b[:700]) + "..."
	}
	return string(b)
}

func body(c *runner.Ctx, faults bool) {
	w := newWorld(c)
	c.Class = "fault-free"
	if faults {
		c.Class = "faulty"
	}
	w.latency = c.Choose(2, "latency-on") == 1
	if c.Choose(4, "bad-unions") == 1 {
		w.badU = map[int64]bool{}
		for i := 0; i < w.nA; i++ {
			if c.Choose(3, "bad-union") == 0 {
				w.badU[w.as[i].ID] = true
			}
		}
	}
	var modeDesc []string
	for _, f := range computedFields {
		m := fieldMode{mode: c.Choose(5, "mode")}
		if c.Choose(3, "parallel") == 1 {
			m.parallel = 1 + c.Choose(5, "parallel-k")
		}
		w.modes[f] = m
		modeDesc = append(modeDesc, f+"="+m.String())
	}
	schema, err := w.buildSchema()
	if err != nil {
		c.Violate("schema-build-failed", "schemabuilder rejected the harness schema: %v", err)
		return
	}
	c.Describe("world: A=%d B=%d C=%d modes: %s", w.nA, w.nB, w.nC, strings.Join(modeDesc, " "))
	nExec := 1 + c.Choose(3, "executions")
	// in a third of the runs every query goes through one Executor
	useShared := c.Choose(3, "shared-executor") == 1
	var execs []*execution
	for i := 0; i < nExec; i++ {
		g := &gen{c: c, w: w, budget: 14, nb: c.Choose(3, "non-null-field") > 0, argVars: c.Choose(3, "argument-variables") == 1, unionFrags: c.Choose(3, "union-type-fragments") == 1, grid: c.Choose(3, "list-of-lists") == 1, rootTN: true, bareFrags: true}
		root := g.genSet("Query", 0)
		g.addTwins(root)
		if c.Choose(3, "directives") == 1 {
			g.dirs = true
			g.decorate(root)
		}
		ex := &execution{idx: i, root: root}
		if c.Choose(3, "opname") == 1 {
			ex.opName = fmt.Sprintf("Op%d", i)
		}
		ex.text = g.text(root, ex.opName)
		ex.vars = g.vars()
		ex.sched = []string{"immediate", "fifo", "lifo", "seeded", "wave2", "wave3"}[c.Choose(6, "scheduler")]
		if useShared {
			ex.sched = "immediate" // the shared executor's scheduler
		}
		ex.fallback = c.Choose(2, "use-batch-flag") == 1
		ex.rerunner = c.Choose(3, "in-rerunner") == 1
		if ex.rerunner && w.latency && c.Choose(3, "deadline") == 1 {
			ex.deadline = time.Duration(1+c.Choose(4, "deadline-ms")) * time.Millisecond
		}
		execs = append(execs, ex)
		c.Describe("exec %d [%s batchflag=%v rerunner=%v]: %s", i, ex.sched, ex.fallback, ex.rerunner, ex.text)
	}
	if faults {
		// fault plan: a few failing (field, object) instances
		n := 1 + c.Choose(3, "fault-count")
		for i := 0; i < n; i++ {
			var field string
			var id int64
			if c.Choose(5, "fault-root") == 0 {
				field = []string{"Query.as", "Query.us", "Query.u1", "Query.bs", "Query.a", "Query.ds"}[c.Choose(6, "fault-root-field")]
				if field == "Query.a" {
					id = int64(c.Choose(w.nA+1, "fault-a-i"))
				}
			} else {
				field = computedFields[c.Choose(len(computedFields), "fault-field")]
				switch field[0] {
				case 'A':
					id = int64(100 + c.Choose(w.nA, "fault-id"))
				case 'B':
					id = int64(200 + c.Choose(w.nB, "fault-id"))
				case 'D':
					id = int64(400 + c.Choose(len(w.ds), "fault-id"))
				default:
					id = int64(300 + c.Choose(w.nC, "fault-id"))
				}
			}
			w.fail[fmt.Sprintf("%s/%d", field, id)] = failure{kind: 1 + c.Choose(4, "fault-kind"), token: fmt.Sprintf("SECRET-%d", i)}
		}
		c.Describe("fault plan: %v", w.fail)
	}
	finished := 0
	// one Executor for every query, as an HTTP handler, a websocket connection
	// and a federation server have: overlapping Execute calls on it must not
	// know of each other
	shared := graphql.NewExecutor(graphql.NewImmediateGoroutineScheduler())
	for _, ex := range execs {
		ex := ex
		go func() {
			defer func() { finished++ }()
			q, err := graphql.Parse(ex.text, ex.vars)
			if err != nil {
				ex.rejected = err
				return
			}
			ctx := context.WithValue(context.Background(), fallbackKey{}, ex.fallback)
			if err := graphql.PrepareQuery(ctx, schema.Query, q.SelectionSet); err != nil {
				ex.rejected = err
				return
			}
			var sched graphql.WorkScheduler
			switch ex.sched {
			case "immediate":
				sched = graphql.NewImmediateGoroutineScheduler()
			case "fifo":
				sched = &serialScheduler{c: c}
			case "lifo":
				sched = &serialScheduler{c: c, mode: 1}
			case "seeded":
				sched = &serialScheduler{c: c, mode: 2}
			case "wave2":
				sched = &waveScheduler{2}
			default:
				sched = &waveScheduler{3}
			}
			simrt.Logf("exec %d start", ex.idx)
			executor := graphql.NewExecutor(sched)
			if useShared && ex.sched == "immediate" {
				c.Probe("execute-on-shared-executor")
				executor = shared
			}
			if ex.rerunner {
				c.Probe("execution-inside-rerunner")
				ran := make(chan struct{})
				first := true
				rr := reactive.NewRerunner(ctx, func(ctx context.Context) (interface{}, error) {
					if !first {
						return nil, errors.New("one-shot")
					}
					first = false
					defer close(ran)
					if ex.deadline > 0 {
						c.Fault("ctx-deadline")
						var cancel context.CancelFunc
						ctx, cancel = context.WithTimeout(ctx, ex.deadline)
						defer cancel()
					}
					ex.val, ex.err = executor.Execute(ctx, schema.Query, nil, q)
					return nil, errors.New("one-shot")
				}, graphql.DefaultMinRerunInterval, false)
				<-ran
				rr.Stop()
			} else {
				ex.val, ex.err = executor.Execute(ctx, schema.Query, nil, q)
			}
			ex.done = true
			simrt.Logf("exec %d end err=%s", ex.idx, errLine(ex.err))
		}()
	}
	// never wait unboundedly on the system under test: poll with a horizon of
	// ten simulated minutes (resolver latencies are milliseconds)
	for i := 0; i < 600 && finished < len(execs); i++ {
		simrt.Sleep(time.Second)
	}

	for _, ex := range execs {
		if ex.rejected != nil {
			c.Probe("query-rejected")
			c.Violate("generated-query-rejected", "a query the generator built as valid was rejected: %v\n%s", ex.rejected, ex.text)
			continue
		}
		if !ex.done {
			c.Violate("execute-never-returned", "Execute did not return within ten simulated minutes [scheduler %s, in rerunner %v]: %s", ex.sched, ex.rerunner, ex.text)
			continue
		}
		ev := &evaluator{w: w}
		want := ev.object("Query", 0, ex.root, nil)
		delete(want.(map[string]interface{}), "__key")
		if len(ev.fails) == 0 {
			c.NonTrivial()
			c.Probe("execution-compared-with-reference")
			if ex.err != nil && ex.deadline > 0 && (errors.Is(ex.err, context.DeadlineExceeded) || errors.Is(ex.err, context.Canceled)) {
				// the context ended first: an error and no data is the correct outcome
				c.Probe("execution-hit-its-deadline")
				if ex.val != nil {
					c.ViolateFor("C16,C01", "data-and-error", "Execute returned both data and an error")
				}
				continue
			}
			if ex.err != nil {
				c.Violate("unexpected-error", "Execute failed although no resolver fails: %v\nquery: %s", errLine(ex.err), ex.text)
				continue
			}
			got, err1 := normalize(ex.val)
			wantN, err2 := normalize(want)
			if err1 != nil || err2 != nil {
				c.Violate("result-not-json", "result cannot be serialised: %v %v", err1, err2)
				continue
			}
			if !reflect.DeepEqual(got, wantN) {
				c.ViolateFor("C01,C16", diffKey(got, wantN), "result differs from sequential reference semantics [scheduler %s, batch flag %v]\nquery: %s\n got: %s\nwant: %s", ex.sched, ex.fallback, ex.text, short(got), short(wantN))
			}
			continue
		}
		// C16: at least one resolver needed for the query fails
		c.NonTrivial()
		c.Probe("execution-with-failing-resolver")
		if len(ev.fails) > 1 {
			c.Probe("execution-with-several-failing-resolvers")
		}
		props := "C16"
		for _, f := range ev.fails {
			if f.f.kind == 5 {
				// whether a nil for a non-null field is an error must not depend on
				// the execution mode either
				c.Probe("non-null-field-resolves-to-nil")
				props = "C01,C16"
				break
			}
			if f.f.kind == 6 {
				c.Probe("union-value-with-two-members")
			}
		}
		if ex.err == nil {
			c.ViolateFor(props, "partial-data-despite-error", "Execute returned data although %d resolver instance(s) fail (e.g. %s at %s)\nquery: %s\n got: %s", len(ev.fails), ev.fails[0].field, strings.Join(ev.fails[0].path, "."), ex.text, short(ex.val))
			continue
		}
		if ex.val != nil {
			c.ViolateFor("C16", "data-and-error", "Execute returned both data and an error")
		}
		if ex.deadline > 0 && (errors.Is(ex.err, context.DeadlineExceeded) || errors.Is(ex.err, context.Canceled)) {
			continue // the context ended before a failing field was reached or reported
		}
		if !matchesSomeFailure(w, ex, ev.fails) {
			var wants []string
			for _, f := range ev.fails {
				wants = append(wants, expectedError(w, ex, f))
			}
			msg := ex.err.Error()
			if i := strings.Index(msg, "\n"); i >= 0 {
				msg = msg[:i]
			}
			c.ViolateFor("C16", "error-not-from-a-failing-field", "Execute's error %q is not the (path-prefixed) error of any failing field; candidates: %v\nquery: %s", msg, wants, ex.text)
		}
	}
}

// diffKey classifies a mismatch for the violation key.
func diffKey(got, want interface{}) string {
	return "result-differs/" + firstDiff(got, want, 0)
}

func firstDiff(got, want interface{}, depth int) string {
	gm, gok := got.(map[string]interface{})
	wm, wok := want.(map[string]interface{})
	if gok && wok {
		for k, wv := range wm {
			gv, ok := gm[k]
			if !ok {
				return "missing-field"
			}
			if !reflect.DeepEqual(gv, wv) {
				return firstDiff(gv, wv, depth+1)
			}
		}
		for k := range gm {
			if _, ok := wm[k]; !ok {
				return "extra-field"
			}
		}
		return "map"
	}
	gl, gok := got.([]interface{})
	wl, wok := want.([]interface{})
	if gok && wok {
		if len(gl) != len(wl) {
			return "list-length"
		}
		for i := range gl {
			if !reflect.DeepEqual(gl[i], wl[i]) {
				return firstDiff(gl[i], wl[i], depth+1)
			}
		}
		return "list"
	}
	if got == nil && want != nil {
		if _, ok := want.(map[string]interface{}); ok {
			return "null-instead-of-object"
		}
		return "null-instead-of-value"
	}
	if got != nil && want == nil {
		return "value-instead-of-null"
	}
	return "wrong-value"
}

const nonNullMsg = "is marked non-nullable but returned a null value"
const badUnionMsg = "union type field should only return one value"

func expectedError(w *world, ex *execution, f failRec) string {
	switch f.f.kind {
	case 2, 3:
		return f.f.token
	}
	p := strings.Join(f.path, ".")
	if ex.opName != "" {
		p = ex.opName + "." + p
	}
	if f.f.kind == 4 {
		return p + ": graphql: panic: " + f.f.token
	}
	if f.f.kind == 5 {
		return p + ": <resolver type> " + nonNullMsg
	}
	if f.f.kind == 6 {
		return "<path>: " + badUnionMsg + " ..."
	}
	return p + ": " + f.f.token
}

func isIndex(s string) bool {
	if s == "" {
		return false
	}
	for _, r := range s {
		if r < '0' || r > '9' {
			return false
		}
	}
	return true
}

// samePathModuloIndices: a batch resolver fails every object of its work
// unit, so the path reported may be that of any object at the same position.
func samePathModuloIndices(a, b string) bool {
	as, bs := strings.Split(a, "."), strings.Split(b, ".")
	if len(as) != len(bs) {
		return false
	}
	for i := range as {
		if as[i] != bs[i] && !(isIndex(as[i]) && isIndex(bs[i])) {
			return false
		}
	}
	return true
}

func matchesSomeFailure(w *world, ex *execution, fails []failRec) bool {
	msg := ex.err.Error()
	for _, f := range fails {
		want := expectedError(w, ex, f)
		if f.f.kind == 6 {
			if strings.Contains(msg, badUnionMsg) {
				return true
			}
			continue
		}
		switch f.f.kind {
		case 2, 3:
			if msg == want {
				return true
			}
			continue
		}
		// split "path: rest"
		i := strings.Index(msg, ": ")
		if i < 0 {
			continue
		}
		gotPath, rest := msg[:i], msg[i+2:]
		j := strings.Index(want, ": ")
		wantPath, wantRest := want[:j], want[j+2:]
		okRest := rest == wantRest
		if f.f.kind == 4 {
			okRest = strings.HasPrefix(rest, wantRest+"\n") || rest == wantRest
		}
		if f.f.kind == 5 {
			okRest = strings.HasSuffix(rest, nonNullMsg)
		}
		if !okRest {
			continue
		}
		if gotPath == wantPath {
			return true
		}
		m := w.modes[f.field]
		if m.mode >= 2 && samePathModuloIndices(gotPath, wantPath) {
			return true
		}
	}
	return false
}

// errLine: the first line of an error (panic errors carry a stack trace with
// addresses, which must not leak into the event log used for replay diffs).
func errLine(err error) string {
	if err == nil {
		return "<nil>"
	}
	return firstLine(err)
}
