// Package h1 simulates graphql query execution (C01, C16): the real parser,
// PrepareQuery, Executor and work schedulers over a schemabuilder schema,
// against an independent sequential reference evaluator that walks the
// generator's own query tree.
package h1

import (
	"context"
	"errors"
	"fmt"
	"reflect"
	"time"

	"github.com/samsarahq/thunder/batch"
	"github.com/samsarahq/thunder/graphql"
	"github.com/samsarahq/thunder/graphql/schemabuilder"
	"simrt"
	"simrt/runner"
)

// The Go types behind the schema. Every object has a key field "id".
type A struct {
	ID   int64 `graphql:"id,key"`
	Name string
}
type B struct {
	ID  int64 `graphql:"id,key"`
	Val int64
}
type C struct {
	ID int64 `graphql:"id,key"`
}
type probeEnum int32
type probeInner struct {
	X bool
	Y *float64
}
type probeIn struct {
	A int64
	B *string
	L []probeInner
	M *probeInner
	E probeEnum
}

// P is a mutation payload: a type reachable only from the Mutation root, without a key.
type P struct {
	N int64
	A *A
}

// D is held by value and is not comparable (it has a slice field).
type D struct {
	ID   int64 `graphql:"id,key"`
	Tags []string
}

// F shares its key space with A (as auto-increment ids of two tables do), so
// a union value can switch from an A to an F with the same __key.
type F struct {
	ID   int64 `graphql:"id,key"`
	Tags []string
}
type U struct {
	schemabuilder.Union
	*A
	*B
	*C
	*F
}

type ref struct {
	typ string // "A", "B", "C" or "" for nil
	id  int64
}

// world is the application data of one run. Every logical field has a value
// that is unique per (object, field, args), so a mis-paired
// source/destination is visible.
type world struct {
	counterRuns int // executions of the bumpN mutation resolver
	c           *runner.Ctx
	nA          int
	nB          int
	nC          int
	as          []*A
	bs          []*B
	cs          []*C
	aB          []int   // A.b: index into bs or -1
	aBs         [][]int // A.bs: indices, -1 = nil entry; nil slice = nil list
	aU          []ref   // A.u
	bA          []int   // B.a
	bCs         [][]int // B.cs
	rootAs      []int
	rootUs      []ref
	rootU1      ref
	rootBs      []int
	ds          []D
	rootDs      []int
	fs          []*F

	// fault plan (C16): failing (field, object id) instances
	fail map[string]failure
	// badU: ids of A objects whose "u" resolver hands back a union value with two
	// members set (a data bug): an error in every execution mode
	badU map[int64]bool
	// modes by field name
	modes   map[string]fieldMode
	latency bool
	hang    bool // some resolver calls block on a slow backend until their context ends
	// onBlocked tells the harness that a computation of the given subscription
	// instance entered / left such a call
	onBlocked func(inst int, blocked bool)
	ver       map[string]int // datum versions (live harness)
	live      *liveState     // non-nil in the live (websocket) harness
}

type failure struct {
	kind  int // 1 plain error, 2 safe error, 3 wrapped safe error, 4 panic; properties of the data, not injected: 5 nil for a non-null field, 6 union value with two members set
	token string
}

type fieldMode struct {
	mode     int // 0 plain, 1 expensive, 2 batch, 3 batch with fallback, 4 batch expensive
	parallel int // NumParallelInvocationsFunc value, 0 = none
}

func (m fieldMode) String() string {
	return fmt.Sprintf("%s/p%d", []string{"plain", "expensive", "batch", "batch+fallback", "batch+expensive"}[m.mode], m.parallel)
}

type fallbackKey struct{}

func pick(c *runner.Ctx, n int, kind string) int { return c.Choose(n, kind) }

func newWorld(c *runner.Ctx) *world {
	w := &world{c: c, fail: map[string]failure{}, modes: map[string]fieldMode{}, ver: map[string]int{}}
	w.nA, w.nB, w.nC = 1+pick(c, 6, "nA"), 1+pick(c, 5, "nB"), 1+pick(c, 4, "nC")
	for i := 0; i < w.nA; i++ {
		w.as = append(w.as, &A{ID: int64(100 + i), Name: fmt.Sprintf("a%d", i)})
	}
	for i := 0; i < w.nB; i++ {
		w.bs = append(w.bs, &B{ID: int64(200 + i), Val: int64(7000 + i)})
	}
	for i := 0; i < w.nC; i++ {
		w.cs = append(w.cs, &C{ID: int64(300 + i)})
	}
	list := func(n int, kind string, nilEntries bool) []int {
		switch pick(c, 6, kind+"-shape") {
		case 0:
			return nil
		case 1:
			return []int{}
		}
		l := make([]int, 1+pick(c, 4, kind+"-len"))
		for i := range l {
			l[i] = pick(c, n, kind+"-el")
			if nilEntries && pick(c, 6, kind+"-nil") == 0 {
				l[i] = -1
			}
		}
		return l
	}
	for i := 0; i < w.nA; i++ {
		f := &F{ID: int64(100 + i)}
		for j, k := 0, pick(c, 3, "f-tags"); j < k; j++ {
			f.Tags = append(f.Tags, fmt.Sprintf("ft%d", pick(c, 3, "f-tag")))
		}
		w.fs = append(w.fs, f)
	}
	anyRef := func(kind string) ref {
		switch pick(c, 5, kind) {
		case 0:
			return ref{}
		case 4:
			return ref{"F", int64(pick(c, w.nA, kind+"-f"))}
		case 1:
			return ref{"A", int64(pick(c, w.nA, kind+"-a"))}
		case 2:
			return ref{"B", int64(pick(c, w.nB, kind+"-b"))}
		}
		return ref{"C", int64(pick(c, w.nC, kind+"-c"))}
	}
	for i := 0; i < w.nA; i++ {
		w.aB = append(w.aB, pick(c, w.nB+1, "aB")-1)
		w.aBs = append(w.aBs, list(w.nB, "aBs", true))
		w.aU = append(w.aU, anyRef("aU"))
	}
	for i := 0; i < w.nB; i++ {
		w.bA = append(w.bA, pick(c, w.nA+1, "bA")-1)
		w.bCs = append(w.bCs, list(w.nC, "bCs", true))
	}
	w.rootAs = list(w.nA, "rootAs", true)
	if w.rootAs == nil {
		w.rootAs = []int{0}
	}
	for i, n := 0, pick(c, 5, "rootUs"); i < n; i++ {
		w.rootUs = append(w.rootUs, anyRef("rootU"))
	}
	w.rootU1 = anyRef("rootU1")
	w.rootBs = list(w.nB, "rootBs", false)
	for i, n := 0, 1+pick(c, 4, "nD"); i < n; i++ {
		d := D{ID: int64(400 + i)}
		for j, k := 0, pick(c, 3, "d-tags"); j < k; j++ {
			d.Tags = append(d.Tags, fmt.Sprintf("t%d", pick(c, 3, "d-tag")))
		}
		w.ds = append(w.ds, d)
	}
	w.rootDs = list(len(w.ds), "rootDs", false)
	return w
}

// point is called by every resolver: a scheduling point, optional simulated
// latency, and the fault plan.
func (w *world) point(ctx context.Context, field string, id int64) error {
	if w.live != nil {
		// the correct reader protocol: register the dependency before reading
		if err := w.live.dep(ctx, field, id); err != nil {
			return err
		}
	}
	if w.hang && w.c.Biased(2, 990, "resolver-waits-on-backend") > 0 {
		// a backend call that hangs (15 minutes) and gives up as soon as the
		// computation's context is cancelled (as database/sql and HTTP clients do)
		w.c.Fault("resolver-blocked-on-backend")
		if w.onBlocked != nil {
			w.onBlocked(instOf(ctx), true)
		}
		tm := time.NewTimer(15 * time.Minute)
		select {
		case <-ctx.Done():
			tm.Stop()
			if w.onBlocked != nil {
				w.onBlocked(instOf(ctx), false)
			}
			return ctx.Err()
		case <-tm.C:
		}
		if w.onBlocked != nil {
			w.onBlocked(instOf(ctx), false)
		}
	}
	if w.latency && w.c.Biased(4, 600, "resolver-latency") > 0 {
		simrt.Sleep(time.Duration(1+w.c.Choose(3, "latency")) * time.Millisecond)
	} else {
		simrt.Yield()
	}
	if f, ok := w.fail[fmt.Sprintf("%s/%d", field, id)]; ok {
		switch f.kind {
		case 1:
			w.c.Fault("resolver-error")
			return errors.New(f.token)
		case 2:
			w.c.Fault("resolver-safe-error")
			return graphql.NewSafeError("%s", f.token)
		case 3:
			w.c.Fault("resolver-wrapped-safe-error")
			return graphql.WrapAsSafeError(errors.New("inner-"+f.token), "%s", f.token)
		case 4:
			w.c.Fault("resolver-panic")
			panic(f.token)
		}
	}
	return nil
}

func (w *world) touchP(i int64) *P {
	p := &P{N: 7000 + i}
	if i >= 0 && int(i) < w.nA {
		p.A = w.as[i]
	}
	return p
}

func (w *world) a(i int) *A {
	if i < 0 {
		return nil
	}
	return w.as[i]
}
func (w *world) b(i int) *B {
	if i < 0 {
		return nil
	}
	return w.bs[i]
}
func (w *world) cc(i int) *C {
	if i < 0 {
		return nil
	}
	return w.cs[i]
}
func (w *world) u(r ref) *U {
	switch r.typ {
	case "A":
		return &U{A: w.as[r.id]}
	case "B":
		return &U{B: w.bs[r.id]}
	case "C":
		return &U{C: w.cs[r.id]}
	case "F":
		return &U{F: w.fs[r.id]}
	}
	return nil
}

// Scalar values embed the datum's version (always 0 in the static worlds of
// the executor harness, bumped by writers in the live harness).
func (w *world) tagVal(id, x int64) string {
	return fmt.Sprintf("tag-%d-%d-v%d", id, x, w.ver[fmt.Sprintf("A.tag/%d", id)])
}
func (w *world) scoreVal(id int64) int64 {
	return id*31 + 5 + 100000*int64(w.ver[fmt.Sprintf("A.score/%d", id)])
}
func (w *world) labelVal(id int64, p *string) string {
	v := w.ver[fmt.Sprintf("B.label/%d", id)]
	if p == nil {
		return fmt.Sprintf("label-%d-v%d", id, v)
	}
	return fmt.Sprintf("label-%d-%s-v%d", id, *p, v)
}
func (w *world) vVal(id int64) int64 {
	return id*13 + 1 + 100000*int64(w.ver[fmt.Sprintf("D.v/%d", id)])
}
func (w *world) wVal(id int64) int64 {
	return id*17 + 3 + 100000*int64(w.ver[fmt.Sprintf("C.w/%d", id)])
}

// toBatch derives the batch form func(ctx, map[batch.Index]*T[, args]) (map[batch.Index]R, error)
// of a plain resolver func(ctx, *T[, args]) (R, error): the same logical
// function in every execution mode.
func toBatch(plain interface{}, onBatch func(n int)) interface{} {
	pv := reflect.ValueOf(plain)
	pt := pv.Type()
	idxT := reflect.TypeOf(batch.Index{})
	in := []reflect.Type{pt.In(0), reflect.MapOf(idxT, pt.In(1))}
	for i := 2; i < pt.NumIn(); i++ {
		in = append(in, pt.In(i))
	}
	out := []reflect.Type{reflect.MapOf(idxT, pt.Out(0)), pt.Out(1)}
	ft := reflect.FuncOf(in, out, false)
	return reflect.MakeFunc(ft, func(args []reflect.Value) []reflect.Value {
		m := args[1]
		onBatch(m.Len())
		res := reflect.MakeMap(out[0])
		errV := reflect.Zero(pt.Out(1))
		// deterministic order over the batch (the executor numbers sources 0..n-1)
		keys := make([]reflect.Value, m.Len())
		for _, k := range m.MapKeys() {
			keys[keyOf(k)] = k
		}
		for _, k := range keys {
			call := []reflect.Value{args[0], m.MapIndex(k)}
			call = append(call, args[2:]...)
			r := pv.Call(call)
			if !r[1].IsNil() {
				return []reflect.Value{reflect.Zero(out[0]), r[1]}
			}
			res.SetMapIndex(k, r[0])
		}
		return []reflect.Value{res, errV}
	}).Interface()
}

// keyOf extracts the position of a batch.Index (its only field).
func keyOf(k reflect.Value) int { return int(k.Field(0).Int()) }

func (w *world) register(obj *schemabuilder.Object, name string, plain interface{}) {
	m := w.modes[obj.Name+"."+name]
	var opts []schemabuilder.FieldFuncOption
	// scalar results are non-null in the plain form; the batch form needs the
	// option to advertise (and enforce) the same type
	if k := reflect.TypeOf(plain).Out(0).Kind(); k == reflect.String || k == reflect.Int64 || name == "nb" {
		opts = append(opts, schemabuilder.NonNullable)
	}
	if m.parallel > 0 {
		k := m.parallel
		opts = append(opts, schemabuilder.NumParallelInvocationsFunc(func(ctx context.Context, n int) int { return k }))
	}
	onBatch := func(n int) {
		w.c.Probe("batch-resolver-call")
		if n >= 2 {
			w.c.Probe("batch-resolver-call-2+")
		}
	}
	switch m.mode {
	case 0:
		obj.FieldFunc(name, plain, opts...)
	case 1:
		obj.FieldFunc(name, plain, append(opts, schemabuilder.Expensive)...)
	case 2:
		obj.BatchFieldFunc(name, toBatch(plain, onBatch), opts...)
	case 3:
		obj.BatchFieldFuncWithFallback(name, toBatch(plain, onBatch), plain, func(ctx context.Context) bool {
			v, _ := ctx.Value(fallbackKey{}).(bool)
			return v
		}, opts...)
	case 4:
		obj.BatchFieldFunc(name, toBatch(plain, onBatch), append(opts, schemabuilder.Expensive)...)
	}
}

func (w *world) buildSchema() (*graphql.Schema, error) { return w.build(false) }

// buildSchemaWithMutation adds a Mutation object whose field changes a datum
// (and invalidates its readers) from inside a resolver.
func (w *world) buildSchemaWithMutation() (*graphql.Schema, error) { return w.build(true) }

// build registers every logical field in the mode the run drew for it.
func (w *world) build(withMutation bool) (*graphql.Schema, error) {
	s := schemabuilder.NewSchema()
	s.Object("P", P{})
	s.Mutation().FieldFunc("touchP", func(ctx context.Context, args struct{ I int64 }) (*P, error) {
		return w.touchP(args.I), nil
	})
	s.Mutation().FieldFunc("touchA", func(ctx context.Context, args struct{ I int64 }) (*A, error) {
		if err := w.point(ctx, "Mutation.touchA", args.I); err != nil {
			return nil, err
		}
		if args.I < 0 || int(args.I) >= w.nA {
			return nil, nil
		}
		return w.as[args.I], nil
	})
	if withMutation {
		s.Mutation().FieldFunc("bump", func(ctx context.Context) (string, error) {
			simrt.Yield()
			return w.live.mutate(), nil
		})
		// bumpN reads the counter it then writes (a reactive read-modify-write):
		// its own write invalidates its own dependency. It must still run once.
		s.Mutation().FieldFunc("bumpN", func(ctx context.Context) (int64, error) {
			if err := w.live.dep(ctx, "M.counter", 0); err != nil {
				return 0, err
			}
			simrt.Yield()
			w.counterRuns++
			w.live.invalidate("M.counter/0")
			return int64(w.counterRuns), nil
		})
		s.Mutation().FieldFunc("fail", func(ctx context.Context, args struct{ Kind int64 }) (string, error) {
			simrt.Yield()
			switch args.Kind {
			case 1:
				return "", errors.New("SECRET-mutation-failed")
			case 2:
				return "", graphql.NewSafeError("safe-mutation-failed")
			case 4:
				// the resolver's own backend call was cancelled (not the request)
				return "", context.Canceled
			case 5:
				// not client-safe itself, it only wraps an error that is
				return "", fmt.Errorf("SECRET-mutation-failed: %w", graphql.NewSafeError("safe-BURIED-mutation"))
			}
			panic("SECRET-mutation-panicked")
		})
	}
	q := s.Query()
	q.FieldFunc("as", func(ctx context.Context) ([]*A, error) {
		if err := w.point(ctx, "Query.as", 0); err != nil {
			return nil, err
		}
		var out []*A
		for _, i := range w.rootAs {
			out = append(out, w.a(i))
		}
		return out, nil
	})
	q.FieldFunc("a", func(ctx context.Context, args struct{ I int64 }) (*A, error) {
		if err := w.point(ctx, "Query.a", args.I); err != nil {
			return nil, err
		}
		if args.I < 0 || int(args.I) >= w.nA {
			return nil, nil
		}
		return w.as[args.I], nil
	})
	q.FieldFunc("us", func(ctx context.Context) ([]*U, error) {
		if err := w.point(ctx, "Query.us", 0); err != nil {
			return nil, err
		}
		var out []*U
		for _, r := range w.rootUs {
			out = append(out, w.u(r))
		}
		return out, nil
	})
	q.FieldFunc("u1", func(ctx context.Context) (*U, error) {
		if err := w.point(ctx, "Query.u1", 0); err != nil {
			return nil, err
		}
		return w.u(w.rootU1), nil
	})
	q.FieldFunc("bs", func(ctx context.Context) ([]B, error) {
		if err := w.point(ctx, "Query.bs", 0); err != nil {
			return nil, err
		}
		var out []B
		for _, i := range w.rootBs {
			out = append(out, *w.bs[i])
		}
		return out, nil
	})
	// bs2: the same objects as bs, by pointer; in the federated world this root
	// field lives on a service that is not the home of B
	q.FieldFunc("bs2", func(ctx context.Context) ([]*B, error) {
		var out []*B
		for _, i := range w.rootBs {
			out = append(out, w.bs[i])
		}
		return out, nil
	})
	q.FieldFunc("n", func() int64 { return 42 })
	// probe takes one argument of every shape the argument parsers know; only
	// the "wild" requests of the untrusted-input scenarios select it
	s.Enum(probeEnum(0), map[string]probeEnum{"ONE": 1, "TWO": 2})
	q.FieldFunc("probe", func(args struct {
		S   []int64
		O   *probeIn
		F   float64
		B   bool
		U   uint8
		I32 int32
		Str string
		P   *int64
	}) string {
		return fmt.Sprintf("%v %v %v %v %v %v %q %v", args.S, args.O != nil, args.F, args.B, args.U, args.I32, args.Str, args.P != nil)
	})
	q.FieldFunc("ds", func(ctx context.Context) ([]D, error) {
		if err := w.point(ctx, "Query.ds", 0); err != nil {
			return nil, err
		}
		var out []D
		for _, i := range w.rootDs {
			out = append(out, w.ds[i])
		}
		return out, nil
	})
	od := s.Object("D", D{})
	w.register(od, "v", func(ctx context.Context, d *D) (int64, error) {
		if err := w.point(ctx, "D.v", d.ID); err != nil {
			return 0, err
		}
		return w.vVal(d.ID), nil
	})

	s.Object("F", F{})

	oa := s.Object("A", A{})
	w.register(oa, "tag", func(ctx context.Context, a *A, args struct{ X int64 }) (string, error) {
		if err := w.point(ctx, "A.tag", a.ID); err != nil {
			return "", err
		}
		return w.tagVal(a.ID, args.X), nil
	})
	w.register(oa, "score", func(ctx context.Context, a *A) (int64, error) {
		if err := w.point(ctx, "A.score", a.ID); err != nil {
			return 0, err
		}
		return w.scoreVal(a.ID), nil
	})
	w.register(oa, "b", func(ctx context.Context, a *A) (*B, error) {
		if err := w.point(ctx, "A.b", a.ID); err != nil {
			return nil, err
		}
		return w.b(w.aB[a.ID-100]), nil
	})
	// nb is b declared non-null (B!): for an A without a b the resolver hands
	// back a nil pointer, which every execution mode must turn into an error
	w.register(oa, "nb", func(ctx context.Context, a *A) (*B, error) {
		if err := w.point(ctx, "A.nb", a.ID); err != nil {
			return nil, err
		}
		return w.b(w.aB[a.ID-100]), nil
	})
	w.register(oa, "grid", func(ctx context.Context, a *A) ([][]*B, error) {
		if err := w.point(ctx, "A.grid", a.ID); err != nil {
			return nil, err
		}
		l := w.aBs[a.ID-100]
		row := func(idx []int) []*B {
			out := []*B{}
			for _, i := range idx {
				out = append(out, w.b(i))
			}
			return out
		}
		rev := make([]int, len(l))
		for i, x := range l {
			rev[len(l)-1-i] = x
		}
		return [][]*B{row(l), nil, row(rev), {}}, nil
	})
	w.register(oa, "bs", func(ctx context.Context, a *A) ([]*B, error) {
		if err := w.point(ctx, "A.bs", a.ID); err != nil {
			return nil, err
		}
		l := w.aBs[a.ID-100]
		if l == nil {
			return nil, nil
		}
		out := []*B{}
		for _, i := range l {
			out = append(out, w.b(i))
		}
		return out, nil
	})
	w.register(oa, "u", func(ctx context.Context, a *A) (*U, error) {
		if err := w.point(ctx, "A.u", a.ID); err != nil {
			return nil, err
		}
		u := w.u(w.aU[a.ID-100])
		if u != nil && w.badU[a.ID] {
			if u.A == nil {
				u.A = w.as[0]
			} else {
				u.B = w.bs[0]
			}
		}
		return u, nil
	})

	ob := s.Object("B", B{})
	w.register(ob, "a", func(ctx context.Context, b *B) (*A, error) {
		if err := w.point(ctx, "B.a", b.ID); err != nil {
			return nil, err
		}
		return w.a(w.bA[b.ID-200]), nil
	})
	w.register(ob, "cs", func(ctx context.Context, b *B) ([]*C, error) {
		if err := w.point(ctx, "B.cs", b.ID); err != nil {
			return nil, err
		}
		l := w.bCs[b.ID-200]
		if l == nil {
			return nil, nil
		}
		out := []*C{}
		for _, i := range l {
			out = append(out, w.cc(i))
		}
		return out, nil
	})
	w.register(ob, "label", func(ctx context.Context, b *B, args struct{ P *string }) (string, error) {
		if err := w.point(ctx, "B.label", b.ID); err != nil {
			return "", err
		}
		return w.labelVal(b.ID, args.P), nil
	})

	oc := s.Object("C", C{})
	w.register(oc, "w", func(ctx context.Context, c *C) (int64, error) {
		if err := w.point(ctx, "C.w", c.ID); err != nil {
			return 0, err
		}
		return w.wVal(c.ID), nil
	})
	return s.Build()
}

var computedFields = []string{"A.tag", "A.score", "A.b", "A.bs", "A.u", "B.a", "B.cs", "B.label", "C.w", "D.v", "A.nb", "A.grid"}
